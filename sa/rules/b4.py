"""rule prototypes, batch 4: obligation ledger (A6) — C14/C15 (O1,O2), C18 (O3), C31 (O5)"""
import ast, sys, os, collections
from sa.util import *
from sa.cfg import CFG
PKG = ["textx/model.py", "textx/metamodel.py", "textx/scoping/__init__.py", "textx/scoping/providers.py", "textx/generators.py", "textx/export.py", "textx/lang.py", "textx/scoping/rrel.py", "textx/scoping/tools.py"]
def name_graph(root):
    """function name -> list of def nodes (package-wide, merged by simple name)"""
    defs = collections.defaultdict(list)
    for rel in PKG:
        for n in ast.walk(load(root, rel)):
            if isinstance(n, (ast.FunctionDef, ast.AsyncFunctionDef)): defs[n.name].append(n)
    return defs
def closure_calls(start_nodes, defs, depth=5):
    """all Call nodes reachable from the given AST nodes through package functions (by simple name)"""
    seen = set(); out = []; frontier = list(start_nodes)
    for _ in range(depth):
        nxt = []
        for node in frontier:
            for c in calls(node):
                out.append(c); nm = callee_name(c)
                if nm in defs and nm not in seen:
                    seen.add(nm); nxt.extend(defs[nm])
        frontier = nxt
        if not frontier: break
    return out
def node_effect(n, defs, pred):
    """does CFG node n (statement) have a transitive call satisfying pred(Call)?"""
    if n.ast is None or n.kind in ("def",): return False
    a = n.ast
    if n.kind == "handler": return False
    return any(pred(c) for c in closure_calls([a], defs))
def normal_succ(node): return [m for k, m in node.succ if k != "exc"]
def escapes(cfg, starts, avoid, val=None):
    """witness path from any start node to raise-exit avoiding nodes where avoid(node)"""
    for s in starts:
        p = cfg.paths_avoiding_consistent(s, cfg.raise_exit, avoid, val) if not avoid(s) else None
        if p: return p
    return None
def in_loop_over_param(call, fn):
    params = {a.arg for a in fn.args.args}
    for a in ancestors(call):
        if isinstance(a, ast.For):
            names = {x.id for x in ast.walk(a.iter) if isinstance(x, ast.Name)}
            if names & params or True: return True
        if a is fn: break
    return False
def r_ledger(root):
    out = []; inst = 0; defs = name_graph(root)
    M = "textx/model.py"; t = load(root, M)
    is_restore = lambda c: callee_name(c) == "_restore_user_attr_methods"
    is_replace = lambda c: callee_name(c) == "_replace_user_attr_methods"
    is_release2 = lambda c: callee_name(c) in ("pop", "clear") and isinstance(c.func, ast.Attribute) and "_tx_obj_attrs" in ast.unparse(c.func.value)
    is_remove = lambda c: callee_name(c) in ("remove_model", "remove_models")
    # ---- O1 local to get_model_from_str
    fn = find(t, "get_model_parser.TextXModelParser.get_model_from_str"); g = CFG(fn); inst += 1
    acq = [n for n in g.nodes if n.kind == "stmt" and any(is_replace(c) for c in calls(n.ast))]
    if not acq: raise AnalysisError("instrumentation acquire site not found")
    rel_node = lambda n: n.kind == "stmt" and node_effect(n, defs, is_restore)
    p = escapes(g, [m for a in acq for m in normal_succ(a)], rel_node)
    if p: out.append(Finding("C14", "C14.a", M, "get_model_from_str", ast.unparse(p[-2].ast)[:80] if p[-2].ast is not None else "", "exception leaves the load with user classes instrumented (no restore on this exit)"))
    # release without acquire unless idempotent (guard flag)
    inst += 1
    rnodes = [n for n in g.nodes if rel_node(n)]
    restore_def = defs["_restore_user_attr_methods"][0]; replace_def = defs["_replace_user_attr_methods"][0]
    first = next((s for s in restore_def.body if not (isinstance(s, ast.Expr) and isinstance(s.value, ast.Constant))), None)
    idem = isinstance(first, ast.If) and any(isinstance(b, ast.Return) for b in first.body) and "getattr(self" in ast.unparse(first.test) or (isinstance(first, ast.If) and "self._" in ast.unparse(first.test) and any(isinstance(b, ast.Return) for b in first.body))
    if idem:
        flag = [x for x in ast.walk(first.test) if isinstance(x, ast.Constant) and isinstance(x.value, str)] or [x for x in ast.walk(first.test) if isinstance(x, ast.Attribute)]
        fl = flag[0].value if isinstance(flag[0], ast.Constant) else flag[0].attr
        idem = any(isinstance(s, ast.Assign) and ast.unparse(s.targets[0]) == "self." + fl and ast.unparse(s.value) == "True" for s in ast.walk(replace_def))
    for r in rnodes:
        pth = g.paths_avoiding(g.entry, r, lambda n: n.kind == "stmt" and any(is_replace(c) for c in calls(n.ast)))
        if pth and not idem:
            out.append(Finding("C14", "C14.a", M, "get_model_from_str", ast.unparse(r.ast), "restore reachable without a matching replace (e.g. syntax error in a nested load un-instruments the outer load early)", witness="nested load with syntax error")); break
    # ---- O1 / O2 on failure exits of the main load: handlers of parse_tree_to_objgraph + get_model_from_str
    drv = find(t, "parse_tree_to_objgraph")
    handlers = [h for tr in own_nodes(drv) if isinstance(tr, ast.Try) for h in tr.handlers if any(isinstance(b, ast.Raise) for b in h.body)]
    own_handler = [h for tr in own_nodes(fn) if isinstance(tr, ast.Try) for h in tr.handlers]
    if len(handlers) < 2: raise AnalysisError("failure handlers of parse_tree_to_objgraph not found")
    # O1 for all models under construction: some handler on every failure exit must reach restore inside a loop over models
    for h in handlers:
        inst += 1
        cs = [c for c in closure_calls(h.body, defs) if is_restore(c)]
        # quantified over the models: some call on the chain from the handler to the restore sits in a loop
        chain = [c for c in closure_calls(h.body, defs) if any(is_restore(x) for x in closure_calls([c], defs))]
        quant = any(any(isinstance(a, ast.For) for a in ancestors(c)) for c in chain)
        if not cs or not quant:
            out.append(Finding("C14", "C14.a", M, "parse_tree_to_objgraph", "except: " + " ".join(ast.unparse(h.body[0]).split())[:70], "failure handler does not restore the user classes for every model under construction (imported models keep them instrumented)", witness="two-file load, error in main file after import"))
    # O2 storage
    acq2 = [n for n in ast.walk(t) if isinstance(n, ast.Assign) and isinstance(n.targets[0], ast.Subscript) and "_tx_obj_attrs" in ast.unparse(n.targets[0].value)]
    if not acq2: raise AnalysisError("per-object storage creation not found")
    for h in handlers + own_handler:
        inst += 1
        cs = [c for c in closure_calls(h.body, defs) if is_release2(c)]
        if not cs:
            where = "get_model_from_str" if h in own_handler else "parse_tree_to_objgraph"
            out.append(Finding("C15", "C15.b", M, where, "except: " + " ".join(ast.unparse(h.body[0]).split())[:70], "failure exit does not release the per-object attribute storage of user classes (partial model stays reachable from the class)", witness="any failing load with user classes"))
    # ---- O3 repository membership
    inst += 1
    gd = CFG(drv)
    cb = [n for n in gd.nodes if n.kind == "stmt" and ast.unparse(n.ast).startswith("pre_ref_resolution_callback(")]
    if not cb: raise AnalysisError("callback site not found")
    cleanup_node = lambda n: node_effect(n, defs, is_remove)
    p = escapes(gd, [m for a in cb for m in normal_succ(a)], cleanup_node)
    if p: out.append(Finding("C18", "C18.a", M, "parse_tree_to_objgraph", ast.unparse(p[-2].ast)[:80] if p[-2].ast is not None else "", "failure after the model was registered leaves it in the repositories"))
    # quantifier + both repositories
    inst += 2
    rm = defs["remove_models_from_repositories"][0]
    from sa import sem as _sem
    from sa import pyeval as _pe
    # decided by evaluation: for a model that has both repositories, both receive remove_models(<the models to be removed>);
    # a repository that is absent is skipped without an error
    _mod = load(root, "textx/scoping/__init__.py")
    _fns = {f_.name: f_ for f_ in _mod.body if isinstance(f_, ast.FunctionDef)}
    _params = [a.arg for a in rm.args.args]
    def _run(has_global, has_own, self_removed=False):
        log = []
        mm_ = {".name": "mm"}; m_ = {".name": "m", "._tx_metamodel": mm_}
        # the models to remove: one still under construction, one whose construction is finished (both were added by the failing load)
        victims = [m_] if self_removed else [{".name": "victim under construction", "._tx_reference_resolver": None, "._tx_metamodel": mm_}, {".name": "finished victim", "._tx_metamodel": mm_}]
        def _rec(tag):
            def f(arg, *a_, **k_):
                same = isinstance(arg, (list, tuple)) and len(arg) == len(victims) and all(x_ is y_ for x_, y_ in zip(arg, victims))
                log.append(tag if same else "%s (asked to remove %s)" % (tag, [x_.get(".name") if isinstance(x_, dict) else x_ for x_ in arg] if isinstance(arg, (list, tuple)) else type(arg).__name__))
            return _pe.PyFn(f)
        if has_global: mm_["._tx_model_repository"] = {".remove_models": _rec("global")}
        if has_own: m_["._tx_model_repository"] = {".remove_models": _rec("own")}
        env = {_params[0]: [m_], _params[1]: victims, "__functions__": _fns}
        try: _pe.run_block(rm.body, env)
        except _pe.Unsupported as e: raise AnalysisError("remove_models_from_repositories: outside the evaluated subset: %s" % e)
        except _pe.Raised as e: log.append("raise " + e.cls)
        return sorted(log)
    for hg, ho, sr in ((True, True, False), (True, False, False), (False, True, False), (False, False, False), (True, True, True)):
        want = sorted((["global"] if hg else []) + (["own"] if ho else []))
        got = _run(hg, ho, sr)
        if got != want:
            out.append(Finding("C18", "C18.a", "textx/scoping/__init__.py", "remove_models_from_repositories", "model with%s global repository, with%s own repository%s" % ("" if hg else "out", "" if ho else "out", ", itself among the models to remove" if sr else ""), "models are removed from %s, documented: from %s (both the metamodel's global repository and the model's own repository, each if present)" % (got or "no repository", want or "none"))); break
    for h in handlers:
        for c in closure_calls(h.body, defs, depth=2):
            if callee_name(c) == "remove_models_from_repositories":
                arg = ast.unparse(c.args[1]) if len(c.args) > 1 else ""
                f2 = enclosing_func(c)
                if f2 is not None and f2.name == "_remove_all_affected_models_in_construction":
                    continue        # decided by evaluation below (C18.b)
                if arg not in ("models", "models_to_be_removed"):
                    out.append(Finding("C18", "C18.a", M, qualname(c), ast.unparse(c), "not all models of the failed attempt are removed"))
                if arg == "models_to_be_removed":
                    src = [s for s in own_nodes(f2) if isinstance(s, ast.Assign) and ast.unparse(s.targets[0]) == "models_to_be_removed"]
                    if not src or "_tx_reference_resolver" not in ast.unparse(src[0].value): out.append(Finding("C18", "C18.b", M, qualname(c), ast.unparse(src[0]) if src else "", "models cached by earlier loads are removed too (no construction-marker filter)"))
    # C18.b by evaluation (sa/pyeval.py): the cleanup of an abandoned load is interpreted on a sample import closure of five models -
    # three still under construction (one whose marker holds None, as _start_model_construction leaves it) and two finished earlier
    from sa import pyeval as _pe
    rf = find(t, "_remove_all_affected_models_in_construction"); p0_ = rf.args.args[0].arg
    def _m(name, marker):
        m_ = {".kind": "model", "._tx_filename": name, "._tx_parser": {".kind": "parser"}}
        if marker != "none": m_["._tx_reference_resolver"] = None if marker == "null" else {".kind": "resolver"}
        return m_
    ms_ = [_m("main", "set"), _m("imp1", "null"), _m("old1", "none"), _m("imp2", "set"), _m("old2", "none")]
    seen_ = {}
    env_ = {"__functions__": {k_: v_ for k_, v_ in helper_functions(root, M, "_remove_all_affected_models_in_construction").items() if k_.startswith("_") and k_ not in ("_remove_all_affected_models_in_construction", "_abandon_user_objects")}, "__module__": t,
            p0_: ms_[0], "get_included_models": _pe.PyFn(lambda m_: list(ms_)), "remove_models_from_repositories": _pe.PyFn(lambda models, to_remove: seen_.__setitem__("removed", (list(models), list(to_remove)))),
            "_abandon_user_objects": _pe.PyFn(lambda models: seen_.__setitem__("abandoned", list(models)))}
    inst += 1
    try: _pe.run_block(rf.body, env_); err_ = None
    except _pe.Raised as r_: err_ = "raises " + r_.cls
    except _pe.Unsupported as u_: raise AnalysisError("_remove_all_affected_models_in_construction: outside the evaluated subset: %s" % u_)
    want_ = [ms_[0], ms_[1], ms_[3]]
    rem_ = seen_.get("removed", (None, None))[1]; ab_ = seen_.get("abandoned")
    okb_ = err_ is None and rem_ is not None and len(rem_) == 3 and all(any(x is y for y in rem_) for x in want_) and ab_ is not None and len(ab_) == 3 and all(any(x is y for y in ab_) for x in want_)
    ob("C18", "C18.b", M, "_remove_all_affected_models_in_construction", "exactly the models still under construction are evicted and abandoned", okb_)
    if not okb_:
        out.append(Finding("C18", "C18.b", M, "_remove_all_affected_models_in_construction", "remove_models_from_repositories(...)", "of an import closure with three models under construction (one whose marker is None) and two models finished by earlier loads, the cleanup %s; documented: exactly the three models under construction are removed from the repositories and have their user objects abandoned - models cached by earlier loads stay" % (err_ or "evicts %s and abandons %s" % ([m_["._tx_filename"] for m_ in rem_] if rem_ is not None else "nothing", [m_["._tx_filename"] for m_ in ab_] if ab_ is not None else "nothing")), witness="a file with an unresolvable reference imports a file that was loaded successfully before"))
    mm = load(root, "textx/metamodel.py")
    for q in ("TextXMetaModel.internal_model_from_file", "TextXMetaModel.model_from_str"):
        inst += 1
        f2 = find(mm, q); g2 = CFG(f2)
        created = [n for n in g2.nodes if n.kind == "stmt" and any(callee_name(c) == "get_model_from_str" for c in calls(n.ast))]
        if not created: raise AnalysisError("load call not found in " + q)
        starts = [m for a in created for m in normal_succ(a)]
        # the metamodel-level membership exists only if the metamodel has a repository
        p = escapes(g2, starts, lambda n: node_effect(n, defs, is_remove) or (n.kind == "stmt" and any(callee_name(c) in ("internal_model_from_file",) for c in calls(n.ast))), {"hasattr(self, '_tx_model_repository')": True})
        if p:
            culprit = next((x for x in reversed(p) if x.ast is not None), None)
            out.append(Finding("C18", "C18.a", "textx/metamodel.py", q, " ".join(ast.unparse(culprit.ast).split())[:80], "an exception here (e.g. a model processor) leaves the models of this load cached in the repository", witness="global_repository=True, model processor raises"))
    # ---- O5 generated file
    G = "textx/generators.py"; gf = find_i(root, G, "gen_file"); g3 = CFG(gf); inst += 1
    cbn = [n for n in g3.nodes if n.kind == "stmt" and any(callee_name(c) == "gen_callback" for c in calls(n.ast))]
    if not cbn: raise AnalysisError("gen_callback call not found")
    removes = lambda n: n.ast is not None and n.kind in ("stmt", "with") and any((callee_name(c) in ("remove", "unlink")) for c in calls(n.ast))
    atomic = all(any(callee_name(c) in ("replace", "rename") and "os" in ast.unparse(c.func) for c in calls(d)) for nm in ("metamodel_export", "model_export") for d in defs[nm])
    exc_succ = [m for k, m in cbn[0].succ if k == "exc"]
    p = None
    for st in exc_succ:
        p = p or (None if removes(st) else g3.paths_avoiding(st, g3.raise_exit, removes))
    if p and not atomic: out.append(Finding("C31", "C31.a", G, "gen_file", "gen_callback()", "a failing generator leaves the partially written output file, which a later run skips", witness="exception in the middle of metamodel_export"))
    return inst, out
ALL = [r_ledger]
if __name__ == "__main__":
    from sa import util
    for root in sys.argv[1:] or ["/repo"]:
        print("=====", root); util._cache.clear()
        for r in ALL:
            try:
                inst, fs = r(root); print("%-22s instances=%-3d findings=%d" % (r.__name__, inst, len(fs)))
                for f in fs: print("     ", f)
            except AnalysisError as e: print(r.__name__, "ANALYSIS-ERROR", e)
