"""C25 / C27 / C28 clauses found by testing against independently seeded changes

   C25.e  a relative grammar import is resolved against the package of the *importing* grammar: the namespace prefix
          computed in _new_import, evaluated (sa/pyeval.py) on sample namespaces, is everything before the last dot
   C25.f  the classes an abstract/alias rule is inherited by are taken from the referenced rule objects
          (rule._tx_class), never looked up by name in whatever namespace happens to be current
   C25.g  the list of imported namespaces is append-only (first import position is kept: no remove/insert/sort)
   C27.d  no function of the package stores a mutable default argument into object state (the default object is
          shared by every instance in the process: parameter definitions of one metamodel would be visible in all)
   C28.c  the location fields passed to one raise are taken in the same iteration (same innermost loop): a file name
          assigned in an outer loop pairs with the line/column of a different model
   C28.d  the reference resolver fills the location into a provider's error only where the error has none (`is None`
          guards): errors that already carry the location of another file keep it"""
import ast
from sa.util import *
from sa import sem, pyeval
MM = "textx/metamodel.py"; L = "textx/lang.py"; M = "textx/model.py"
def r_C25efg(root):
    out = []; inst = 0
    t = load(root, MM); ni = find_i(root, MM, "TextXMetaModel._new_import"); fi = sem.info(ni)
    # ---- C25.e
    asg = [n for n in own_nodes(ni) if isinstance(n, ast.Assign) and isinstance(n.targets[0], ast.Name) and n.targets[0].id == "import_name" and not (isinstance(n.value, ast.Name) and n.value.id == "import_name")]
    if not asg: raise AnalysisError("_new_import: qualification of the import name not found")
    for a in asg:
        inst += 1
        blk = next((x for x in ancestors(a) if isinstance(x, ast.If)), None)
        if blk is None: raise AnalysisError("_new_import: qualification is not conditional on the current namespace")
        cur = next((x.id for x in ast.walk(blk.test) if isinstance(x, ast.Name)), None)
        if cur is None: raise AnalysisError("_new_import: current-namespace variable not found")
        okc = True; got = None
        SAMPLES = [("pkg.inner.mid", "leaf", "pkg.inner.leaf"), ("pkg.base", "types", "pkg.types"), ("a.b.c.d", "x.y", "a.b.c.x.y")]
        try:
            for ns, imp, want in SAMPLES:
                env = {"import_name": imp, cur: ns}
                if not pyeval.evaluate(blk.test, env): raise AnalysisError("_new_import: dotted namespace %r does not take the qualification branch" % ns)
                try: pyeval.run_block(blk.body, env)
                except pyeval.Raised as r_: raise AnalysisError("_new_import: the qualification branch raises %s" % r_.cls)
                got = env["import_name"]
                if got != want: okc = False; break
        except pyeval.Unsupported as e: raise AnalysisError("_new_import: %s" % e)
        ob("C25", "C25.e", MM, "TextXMetaModel._new_import", " ".join(ast.unparse(a).split())[:90], okc)
        if not okc:
            out.append(Finding("C25", "C25.e", MM, "TextXMetaModel._new_import", " ".join(ast.unparse(blk).split())[:130], "an import made by the grammar in namespace %r resolves %r to %r, documented (relative to the importing file's directory): %r" % (ns, imp, got, want), witness="a grammar two directory levels below the root that imports a sibling"))
    # ---- C25.g
    inst += 1
    muts = []
    for c in calls(ni, own=True):
        if isinstance(c.func, ast.Attribute) and c.func.attr in ("append", "insert", "remove", "pop", "sort", "reverse", "extend", "clear") and "_imported_namespaces" in fi.text(c.func.value, at=c): muts.append(c)
    bad = [c for c in muts if c.func.attr != "append"]
    ob("C25", "C25.g", MM, "TextXMetaModel._new_import", "imported-namespace list is append-only (%s)" % [c.func.attr for c in muts], not bad and bool(muts))
    for c in bad:
        out.append(Finding("C25", "C25.g", MM, "TextXMetaModel._new_import", ast.unparse(c), "the search order of imported grammars is rearranged (%s): a grammar imported twice loses its first position and rules are taken from a later import" % c.func.attr, witness="import colors / import sizes / import colors, both define Value"))
    # ---- C25.f
    lt = load(root, L); dt = find(lt, "TextXVisitor._determine_rule_types._determine_rule_type"); fid = sem.info(dt)
    apps = [c for c in calls(dt) if callee_name(c) == "append" and ("_tx_inh_by" in ast.unparse(c.func.value) or "inh_by" == ast.unparse(c.func.value))]
    if not apps: raise AnalysisError("_determine_rule_type: extensions of _tx_inh_by not found")
    for c in apps:
        inst += 1
        f_ = enclosing_func(c); fx = sem.info(f_) if f_ is not dt else fid
        v = fx.expand(c.args[0], at=c)
        by_name = any(isinstance(x, ast.Subscript) and "metamodel" in ast.unparse(x.value) for x in ast.walk(v))
        okc = not by_name and any(isinstance(x, ast.Attribute) and x.attr == "_tx_class" for x in ast.walk(v))
        ob("C25", "C25.f", L, "_determine_rule_type", ast.unparse(c), okc)
        if not okc:
            for pr, cl in (("C25", "C25.f"), ("C03", "C03.i")):
                out.append(Finding(pr, cl, L, "_determine_rule_type", " ".join(ast.unparse(c).split())[:90], "the inheriting class is %s: a lookup by rule name goes through the namespace that is current when the kinds are determined, so an alias rule of an imported grammar inherits a same-named rule of another file" % ("looked up by name (%s)" % ast.unparse(v)[:50] if by_name else ast.unparse(v)[:50]), witness="imported grammar with 'Shape: Figure;' and an importer that defines its own Figure"))
    return inst, out
_FIXTURE = "class K:\n    def __init__(self, d={}):\n        self.store = d\n"
def _mutable_defaults(tree):
    hits = []
    for fn in [n for n in ast.walk(tree) if isinstance(n, (ast.FunctionDef, ast.AsyncFunctionDef))]:
        a = fn.args; params = a.posonlyargs + a.args
        pairs = list(zip(params[len(params) - len(a.defaults):], a.defaults)) + [(p, d) for p, d in zip(a.kwonlyargs, a.kw_defaults) if d is not None]
        for p, d in pairs:
            mutable = isinstance(d, (ast.Dict, ast.List, ast.Set)) or (isinstance(d, ast.Call) and getattr(d.func, "id", "") in ("dict", "list", "set", "OrderedDict", "defaultdict"))
            if not mutable: continue
            stored = [n for n in ast.walk(fn) if isinstance(n, ast.Assign) and isinstance(n.value, ast.Name) and n.value.id == p.arg and any(isinstance(tg, (ast.Attribute, ast.Subscript)) for tg in n.targets)]
            mutated = [c for c in ast.walk(fn) if isinstance(c, ast.Call) and isinstance(c.func, ast.Attribute) and isinstance(c.func.value, ast.Name) and c.func.value.id == p.arg and c.func.attr in ("append", "add", "update", "setdefault", "extend", "insert", "pop", "clear")] + \
                      [n for n in ast.walk(fn) if isinstance(n, ast.Assign) and any(isinstance(tg, ast.Subscript) and isinstance(tg.value, ast.Name) and tg.value.id == p.arg for tg in n.targets)]
            if stored or mutated: hits.append((fn, p.arg, (stored + mutated)[0]))
    return hits
def r_C27d(root):
    out = []; inst = 0
    if len(_mutable_defaults(ast.parse(_FIXTURE))) != 1: raise AnalysisError("mutable-default rule does not match its own positive fixture")
    import os
    files = []
    for d, _, fs in os.walk(os.path.join(root, "textx")):
        for f in sorted(fs):
            if f.endswith(".py"): files.append(os.path.relpath(os.path.join(d, f), root))
    for rel in sorted(files):
        t = load(root, rel); inst += 1
        hits = _mutable_defaults(t)
        ob("C27", "C27.d", rel, "*", "no mutable default argument is stored or mutated (%d functions)" % sum(1 for n in ast.walk(t) if isinstance(n, ast.FunctionDef)), not hits)
        for fn, p, st in hits:
            props = [("C16", "C16.d")] + ([("C27", "C27.d")] if rel.endswith("model_params.py") or "param" in p.lower() or "param" in qualname(fn).lower() else [])
            for pr, cl in props:
                out.append(Finding(pr, cl, rel, qualname(fn), " ".join(ast.unparse(st).split())[:90], "the mutable default of parameter %r is kept/changed: the one default object is shared by every call in the process, so state leaks between metamodels (e.g. a model parameter declared on one metamodel is accepted by all)" % p, witness="two metamodels in one process"))
    return inst, out
def r_C28cd(root):
    out = []; inst = 0
    t = load(root, M); drv = find_i(root, M, "parse_tree_to_objgraph"); fi = sem.info(drv)
    # ---- C28.c
    for r in [n for n in own_nodes(drv) if isinstance(n, ast.Raise) and isinstance(n.exc, ast.Call)]:
        kw = {k.arg: k.value for k in r.exc.keywords if k.arg in ("line", "col", "filename")}
        if len(kw) < 2 or not all(isinstance(v, ast.Name) for v in kw.values()): continue
        inst += 1
        homes = {}
        for f, v in kw.items():
            n = fi.node_of(r); ds = fi.rd.defs_of(n, v.id)
            loops = set()
            for d in ds:
                a = fi.cfg.nodes[d].ast
                lp = next((x for x in ancestors(a) if isinstance(x, (ast.For, ast.While))), None) if a is not None else None
                loops.add(id(lp) if lp is not None else None)
            homes[f] = loops
        same = len({frozenset(v) for v in homes.values()}) == 1
        ob("C28", "C28.c", M, "parse_tree_to_objgraph", "location fields of %s assigned in the same loop" % ast.unparse(r.exc.func), same)
        if not same:
            out.append(Finding("C28", "C28.c", M, "parse_tree_to_objgraph", " ".join(ast.unparse(r).split())[:100], "line/col and filename of this error are assigned at different loop levels: the file name of the last model is combined with the line and column of a reference in another model", witness="main file with a never-resolving reference importing an error-free file"))
    # ---- C28.d
    ro = find_i(root, M, "ReferenceResolver.resolve_one_step"); fr = sem.info(ro)
    hs = [h for n in ast.walk(ro) if isinstance(n, ast.Try) for h in n.handlers if h.name and h.type is not None and "TextXError" in ast.unparse(h.type)]
    for h in hs:
        fills = [n for n in ast.walk(ast.Module(body=h.body, type_ignores=[])) if isinstance(n, ast.Assign) and any(isinstance(x, ast.Attribute) and isinstance(x.value, ast.Name) and x.value.id == h.name and x.attr in ("line", "col", "filename") for tg in n.targets for x in ast.walk(tg))]
        for a in fills:
            inst += 1
            guarded = any(pol and a_.startswith(h.name + ".") and a_.endswith(" is None") for a_, pol in fr.atoms_at(a))
            ob("C28", "C28.d", M, "ReferenceResolver.resolve_one_step", " ".join(ast.unparse(a).split())[:80], guarded)
            if not guarded:
                out.append(Finding("C28", "C28.d", M, "ReferenceResolver.resolve_one_step", " ".join(ast.unparse(a).split())[:90], "the location of every textX error coming out of a scope provider is overwritten with the location of the reference: an error raised while the provider loads another model (syntax error in that file) is reported in the referencing file", witness="a scope provider that loads a broken file lazily inside __call__"))
    # ---- C28.d by evaluation: the handler is interpreted for every subset of location fields the provider's error already has
    from sa import pyeval as _pe
    import itertools as _it
    ro0 = find(t, "ReferenceResolver.resolve_one_step")
    for h in [h for n in ast.walk(ro0) if isinstance(n, ast.Try) for h in n.handlers if h.name and h.type is not None and "TextXError" in ast.unparse(h.type)]:
        if not any(isinstance(x, ast.Attribute) and isinstance(x.value, ast.Name) and x.value.id == h.name and x.attr in ("line", "col", "filename") and isinstance(x.ctx, ast.Store) for x in ast.walk(ast.Module(body=h.body, type_ignores=[]))): continue
        bad = None; n_cases = 0
        for r_ in range(4):
            for preset in _it.combinations(("line", "col", "filename"), r_):
                err = {".cls": "TextXSemanticError", ".message": "m", ".nchar": None}
                for f_ in ("line", "col", "filename"): err["." + f_] = ("provider-" + f_) if f_ in preset else None
                parser = {".pos_to_linecol": _pe.PyFn(lambda pos: (("ref-line", pos), ("ref-col", pos))), ".debug": False}
                self_ = {".kind": "resolver", ".parser": parser, ".model": {"._tx_filename": "ref.file", "._tx_parser": parser}}
                env = {h.name: err, "self": self_, "crossref": {".position": 42, ".position_end": 45, ".obj_name": "n"}, "obj": {".kind": "obj"}, "attr": {".name": "a"}, "metamodel": {".file_name": "g.tx"},
                       "__exc__": _pe.Raised("TextXSemanticError"), "get_model": _pe.PyFn(lambda o: self_[".model"]), "get_parser": _pe.PyFn(lambda o: parser), "__functions__": {k_: v_ for k_, v_ in helper_functions(root, M, "ReferenceResolver.resolve_one_step").items() if k_.startswith("_") and not k_.startswith("__")}}
                try: _pe.run_block(h.body, env); raised = False
                except _pe.Raised: raised = True
                except _pe.Unsupported as u_: raise AnalysisError("resolve_one_step: TextXError handler outside the evaluated subset: %s" % u_)
                n_cases += 1
                want = {"line": ("ref-line", 42), "col": ("ref-col", 42), "filename": "ref.file"} if not preset else {f_: (("provider-" + f_) if f_ in preset else None) for f_ in ("line", "col", "filename")}
                got = {f_: (tuple(err["." + f_]) if isinstance(err["." + f_], list) else err["." + f_]) for f_ in ("line", "col", "filename")}
                if (got != want or not raised) and bad is None: bad = (preset, got, want, raised)
        inst += 1
        ob("C28", "C28.d", M, "ReferenceResolver.resolve_one_step", "TextXError handler evaluated for the %d subsets of location fields a provider's error can carry" % n_cases, bad is None)
        if bad:
            preset, got, want, raised = bad
            out.append(Finding("C28", "C28.d", M, "ReferenceResolver.resolve_one_step", "provider error with %s set" % (list(preset) or "no location field"), ("the error is not re-raised" if not raised else "an error a scope provider raised with %s ends up located at %s; documented %s (an error without any location is located at the reference, an error that carries a location - also a partial one, e.g. from a nested model loaded from a string - keeps it)" % ("the fields %s" % list(preset) if preset else "no location", got, want)), witness="scope provider that loads a nested model from a string whose processor fails"))
    return inst, out

def r_C28e(root):
    """C28.e  every scope-provider call of the resolver (grammar-attached provider, registered provider, default provider —
       recognised by the shape of the callee, sa/rules/gen.py) lies inside a try whose TextXError handler fills line, col
       and filename from the reference and re-raises: an error raised without location by *any* provider is reported at
       the reference."""
    from sa.rules import gen
    out = []; inst = 0
    fn = find(load(root, M), "ReferenceResolver.resolve_one_step")
    pcs = [c for c in calls(fn, own=True) if gen._is_provider_call(c)]
    if not pcs: raise AnalysisError("resolve_one_step: no scope provider call found")
    for c in pcs:
        inst += 1; ok = False
        for a in ancestors(c):
            if a is fn: break
            if isinstance(a, ast.Try) and any(c is x for b in a.body for x in ast.walk(b)):
                for h in a.handlers:
                    ht = ast.unparse(h.type) if h.type is not None else "BaseException"
                    if not any(k in ht for k in ("TextXError", "Exception", "BaseException")): continue
                    def _stores(scope):
                        return {tg.attr for n in ast.walk(scope) if isinstance(n, ast.Assign) for tg0 in n.targets for tg in ([tg0] if isinstance(tg0, ast.Attribute) else (tg0.elts if isinstance(tg0, (ast.Tuple, ast.List)) else [])) if isinstance(tg, ast.Attribute)}
                    stores = set()
                    for hb in h.body: stores |= _stores(hb)
                    # the fill-in may be extracted into a helper of the module that the handler calls
                    for hc in [x for hb in h.body for x in ast.walk(hb) if isinstance(x, ast.Call)]:
                        hd = [d for d in ast.walk(load(root, M)) if isinstance(d, ast.FunctionDef) and d.name == callee_name(hc)]
                        if len(hd) == 1: stores |= _stores(hd[0])
                    if {"line", "col", "filename"} <= stores and any(isinstance(n, ast.Raise) for n in ast.walk(h)): ok = True
                if ok: break
        ob("C28", "C28.e", M, "ReferenceResolver.resolve_one_step", "provider call %s under the location-filling handler" % " ".join(ast.unparse(c).split())[:60], ok)
        if not ok: out.append(Finding("C28", "C28.e", M, "ReferenceResolver.resolve_one_step", " ".join(ast.unparse(c).split())[:90], "this provider call is not covered by the handler that gives a location-less TextXError the position and file of the reference: its errors ('name is not unique', 'Unknown object' raised by a provider) reach the user with line, col and filename None", witness="a name defined twice and a reference to it on an attribute without a registered provider"))
    return inst, out

def r_C28f(root):
    """C28.f  who may write an error's location: the fields line / col / filename / nchar of a caught exception are assigned
       only by the exception constructors, by TextXMetaModel.process (location of the processed object) and by the
       resolver's handler in resolve_one_step (location of the reference) — the two places that fill a location-less
       error *completely*.  A partial fill anywhere else (a provider naming only a file) makes the resolver's
       'no location at all' test false, and the error reaches the user without line and column."""
    import glob as _glob, os as _os
    out = []; inst = 0
    ALLOWED = {("textx/exceptions.py", None), ("textx/metamodel.py", "TextXMetaModel.process"), ("textx/model.py", "ReferenceResolver.resolve_one_step")}
    files = sorted(_os.path.relpath(f, root) for f in _glob.glob(_os.path.join(root, "textx", "**", "*.py"), recursive=True))
    for rel in files:
        t = load(root, rel)
        for n in ast.walk(t):
            if not isinstance(n, ast.Assign): continue
            tgs = [x for tg in n.targets for x in (tg.elts if isinstance(tg, (ast.Tuple, ast.List)) else [tg])]
            hit = [x for x in tgs if isinstance(x, ast.Attribute) and x.attr in ("line", "col", "filename", "nchar") and isinstance(x.value, ast.Name) and x.value.id != "self" and any(isinstance(a, ast.ExceptHandler) and a.name == x.value.id for a in ancestors(n))]
            # (helpers of the allowed sites: parameters named like an error are accepted when the function is called from an allowed handler)
            if not hit:
                fn = enclosing_func(n)
                hit = [x for x in tgs if isinstance(x, ast.Attribute) and x.attr in ("line", "col", "filename", "nchar") and isinstance(x.value, ast.Name) and fn is not None and x.value.id in {a.arg for a in fn.args.args} and x.value.id in ("e", "err", "error", "exc", "exception")]
            if not hit: continue
            inst += 1
            q = qualname(n)
            ok = (rel, None) in ALLOWED or (rel, q) in ALLOWED
            if not ok:
                fn = enclosing_func(n)
                # an extracted helper of an allowed site
                callers = [c for c in calls(t) if fn is not None and callee_name(c) == fn.name]
                ok = bool(callers) and all((rel, qualname(c)) in ALLOWED for c in callers)
            ob("C28", "C28.f", rel, q, " ".join(ast.unparse(n).split())[:80], ok)
            if not ok: out.append(Finding("C28", "C28.f", rel, q, " ".join(ast.unparse(n).split())[:90], "an error's location is filled in partly outside the two places that fill it completely: the resolver then finds the error 'located' and does not add the line and column of the reference", witness="PlainNameImportURI; a name defined twice in an imported file"))
    if inst < 2: raise AnalysisError("location fill-in sites: only %d found (TextXMetaModel.process and resolve_one_step expected)" % inst)
    return inst, out

def r_who_writes(root):
    """C27.e  a model's parameters are written once, when it is created: `_tx_model_params` is assigned only inside the two
              kwargs_callback functions of metamodel.py (C27.c) — a cached model handed out again keeps the parameters of
              the load that built it.
       C07.d  the builtins fallback binds plain Python objects: in resolve_one_step the tool-support bookkeeping (which reads
              _tx_position / _tx_filename of the resolved *model object*) is not reachable, within one iteration, from the
              statement that binds a builtin.
       C25.h  the 'redefined imported rule cannot be replaced by a user class' error depends only on the user class being
              found and its rule name having been used before (not on what is visible from the current grammar file)."""
    import glob as _glob, os as _os
    out = []; inst = 0
    files = sorted(_os.path.relpath(f, root) for f in _glob.glob(_os.path.join(root, "textx", "**", "*.py"), recursive=True))
    for rel in files:
        t = load(root, rel)
        for n in ast.walk(t):
            if isinstance(n, ast.Assign) and any(isinstance(tg, ast.Attribute) and tg.attr == "_tx_model_params" for tg in n.targets):
                inst += 1; q = qualname(n)
                ok = rel == "textx/metamodel.py" and q.endswith("kwargs_callback")
                if not ok and rel == "textx/metamodel.py":
                    # a private helper that only the kwargs_callback closures call (the store moved into it)
                    ef = enclosing_func(n)
                    sites = [c for f2 in files for c in calls(load(root, f2)) if ef is not None and callee_name(c) == ef.name] if ef is not None and ef.name.startswith("_") else []
                    ok = bool(sites) and all((qualname(c) or "").split(".")[-1] == "kwargs_callback" or "kwargs_callback" in (qualname(c) or "") for c in sites)
                ob("C27", "C27.e", rel, q, " ".join(ast.unparse(n).split())[:80], ok)
                if not ok: out.append(Finding("C27", "C27.e", rel, q, " ".join(ast.unparse(n).split())[:90], "a model's parameters are overwritten outside its creation: a model cached in the repository then shows the parameters of a later load while the models it imported keep those of the first", witness="global_repository=True; the same main file loaded twice with different parameters"))
    if inst < 1: raise AnalysisError("stores of _tx_model_params: none found")
    # ---- C07.d (builtin targets and the tool bookkeeping) is decided by evaluation: C34.h, sa/rules/cres.py
    # ---- C25.h
    vr = find_i(root, "textx/lang.py", "TextXVisitor.visit_rule_name"); fiv = sem.info(vr)
    rs = [r for r in own_nodes(vr) if isinstance(r, ast.Raise) and "redefined imported rule" in ast.unparse(r)]
    if not rs: raise AnalysisError("visit_rule_name: redefinition error not found")
    for r in rs:
        inst += 1
        extra = [(a, pol) for a, pol in fiv.atoms_at(r) if not ("_used_rule_names_for_user_classes" in a or a.replace(" ", "") in ("clsisNone",) or "user_classes" in a)]
        ob("C25", "C25.h", "textx/lang.py", "TextXVisitor.visit_rule_name", "redefinition error under %s" % [a for a, _p in fiv.atoms_at(r)], not extra)
        if extra: out.append(Finding("C25", "C25.h", "textx/lang.py", "TextXVisitor.visit_rule_name", "raise ... under %s%s" % ("" if extra[0][1] else "not ", extra[0][0][:70]), "the error for a user class bound to two rules of the same name depends on an extra condition: for sibling grammar files that do not import each other one user class is silently initialised for both rules (same class object, the fqn of the file read last)", witness="classes=[Thing]; left.tx and right.tx both define Thing and do not import each other"))
    return inst, out
