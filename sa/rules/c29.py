"""C29 / C30 / C31 / C33 / C34 clauses found by testing against independently seeded changes

   C29.c  every model object gets a node: a model whose own repository is empty is still exported (the emptiness check
          after taking the model's repository leads to _export(model)); class boxes of the metamodel export are not
          de-duplicated by the short class name (two grammars may define the same name)
   C29.d  dot_repr escapes strings only: it is applied only to values known to be str/primitive on that path
          (isinstance / type-in-PRIMITIVE guard, or every element of the list tested primitive); an object's str() is
          '<Cls:name>' and breaks a record label
   C30.d  textx check looks the metamodel up for every file when no grammar/language is given (the lookup is not
          conditional on a variable the loop itself assigns)
   C30.e  the 'mandatory parameter missing' error does not depend on whether any custom argument was given
   C31.c  the built-in export writers let I/O errors propagate (no suppress / swallowing handler around write or
          close): a failed flush at close must fail the generator, otherwise a truncated file is reported as done
   C33.c  the location handed to a match processor is the start of the match (node.position), on every definition
   C34.g  the cross-reference position lists are sorted after the resolution loop, for every model of the load"""
import os, ast
from sa.util import *
from sa import sem
E = "textx/export.py"; M = "textx/model.py"; CK = "textx/cli/check.py"; GN = "textx/cli/generate.py"
def _u(e): return ast.unparse(e).replace(" ", "").replace("\n", "")
def r_export2(root):
    out = []; inst = 0
    t = load(root, E)
    # ---- C29.d
    # every dot_repr call of model_export_to_file and of the functions nested in it (whatever they are called)
    mf0 = find(t, "model_export_to_file")
    sites = [(f_, c) for f_ in [mf0] + [n_ for n_ in ast.walk(mf0) if isinstance(n_, ast.FunctionDef) and n_ is not mf0] for c in calls(f_, own=True) if callee_name(c) == "dot_repr" and c.args]
    if not sites: raise AnalysisError("model_export_to_file: no dot_repr call found (the label writer vanished)")
    for ex, c in sites:
        fi = sem.info(ex)
        inst += 1
        a = c.args[0]; okc = False; why = ""
        if isinstance(a, ast.Name):
            gl = []
            for g, pol in fi.guards(c):
                if pol and isinstance(g, ast.BoolOp) and isinstance(g.op, ast.And): gl += [(_u(v), True) for v in g.values]
                else: gl.append((_u(g), pol))
            if any(pol and u in ("isinstance(%s,str)" % a.id, "type(%s)inPRIMITIVE_PYTHON_TYPES" % a.id) for u, pol in gl): okc = True
            comp = next((x for x in ancestors(c) if isinstance(x, (ast.ListComp, ast.GeneratorExp))), None)
            if comp is not None and any(isinstance(tg, ast.Name) and tg.id == a.id for gen in comp.generators for tg in ast.walk(gen.target)):
                src = _u(comp.generators[0].iter)
                allprim = "all([type(%s)inPRIMITIVE_PYTHON_TYPESfor%sin%s])" % (a.id, a.id, src)
                allprim2 = "all(type(%s)inPRIMITIVE_PYTHON_TYPESfor%sin%s)" % (a.id, a.id, src)
                stg = [(_u(g), pol) for g, pol in fi.guards(comp)]
                if any(pol and u in (allprim, allprim2) for u, pol in stg): okc = True
                if any(_u(f) in ("isinstance(%s,str)" % a.id, "type(%s)inPRIMITIVE_PYTHON_TYPES" % a.id) for gen in comp.generators for f in gen.ifs): okc = True
                why = "guards: %s" % [u for u, p in stg if p][-2:]
        ob("C29", "C29.d", E, "model_export_to_file." + ex.name, ast.unparse(c), okc)
        if not okc:
            out.append(Finding("C29", "C29.d", E, "model_export_to_file." + ex.name, " ".join(ast.unparse(stmt_of(c)).split())[:110], "dot_repr escapes only strings; here its argument is not known to be a string or primitive (%s): an object in the list is written as '<Cls:name>' into a record label and gets no node of its own" % why, witness="Value: Item | INT | STRING;  list 7, item a"))
    # ---- C29.c  (i) empty own repository
    mf = find(t, "model_export_to_file"); inst += 1
    took = [n for n in own_nodes(mf) if isinstance(n, ast.Assign) and "_tx_model_repository" in ast.unparse(n.value) and isinstance(n.targets[0], ast.Name)]
    okc = True
    for a in took:
        v = a.targets[0].id
        blk = block_of(a); idx = [k for k, x in enumerate(blk) if x is a][0]
        follow = blk[idx + 1:]
        has = any(isinstance(s, ast.If) and _u(s.test) in ("not" + v, "len(%s)==0" % v) and any(callee_name(c) == "_export" for c in calls(s)) for s in follow)
        if not has:
            okc = False
            out.append(Finding("C29", "C29.c", E, "model_export_to_file", " ".join(ast.unparse(a).split()), "a model whose own repository is empty (an import-capable language, a model that imports nothing) is exported as an empty graph: no node is written for any of its objects", witness="metamodel with an ImportURI provider, model without imports"))
    ob("C29", "C29.c", E, "model_export_to_file", "empty own repository still exports the model", okc)
    # ---- C29.c (ii) class boxes not de-duplicated by short name
    me = find(t, "metamodel_export_tofile"); fim = sem.info(me)
    for c in [c for c in calls(me, own=True) if callee_name(c) == "render_class"]:
        inst += 1; okc = True
        for g, pol in fim.guards(c):
            for x in ast.walk(g):
                if isinstance(x, ast.Compare) and isinstance(x.ops[0], (ast.In, ast.NotIn)) and isinstance(x.left, ast.Attribute) and x.left.attr == "name" and not (isinstance(x.comparators[0], ast.Name) and x.comparators[0].id.isupper()):
                    okc = False
                    out.append(Finding("C29", "C29.c", E, "metamodel_export_tofile", ast.unparse(x), "class boxes are de-duplicated by the short class name: of two rules with the same name in different grammar files only one gets a node / a class declaration", witness="main.Item and parts.Item"))
        ob("C29", "C29.c", E, "metamodel_export_tofile", ast.unparse(c), okc)
    # ---- C31.c
    for q in ("metamodel_export", "model_export", "metamodel_export_tofile", "model_export_to_file"):
        try: fn = find(t, q)
        except AnalysisError: continue
        inst += 1; bad = []
        # the function and the module's helpers it calls (an opener / writer extracted into a helper is part of the writer)
        scope = [fn]; seen_ = {fn.name}
        for f_ in scope:
            for c_ in ast.walk(f_):
                if isinstance(c_, ast.Call) and isinstance(c_.func, ast.Name) and c_.func.id not in seen_ and c_.func.id not in ("metamodel_export", "model_export", "metamodel_export_tofile", "model_export_to_file"):
                    h_ = next((x_ for x_ in t.body if isinstance(x_, ast.FunctionDef) and x_.name == c_.func.id), None)
                    if h_ is not None and len(scope) < 12 and any(isinstance(y_, ast.Call) and callee_name(y_) in ("open", "write", "close", "flush") for y_ in ast.walk(h_)): seen_.add(h_.name); scope.append(h_)
        for n in [x_ for f_ in scope for x_ in ast.walk(f_)]:
            if isinstance(n, ast.With) and any(isinstance(i.context_expr, ast.Call) and callee_name(i.context_expr) == "suppress" for i in n.items): bad.append(n)
            if isinstance(n, ast.Try):
                for h in n.handlers:
                    # handlers for exception classes that no write / flush / close can raise (the iteration protocol, lookups) swallow no I/O error
                    names_ = [ast.unparse(x_) for x_ in (h.type.elts if isinstance(h.type, ast.Tuple) else [h.type])] if h.type is not None else [None]
                    if all(nm_ in ("StopIteration", "KeyError", "IndexError", "LookupError", "AttributeError") for nm_ in names_): continue
                    if not any(isinstance(x, ast.Raise) for x in ast.walk(ast.Module(body=h.body, type_ignores=[]))): bad.append(h)
        opens = [c for f_ in scope for c in calls(f_) if callee_name(c) == "open"]
        # an open() that is returned / yielded by a helper is managed by the caller's with statement
        unmanaged = [c for c in opens if not any(isinstance(a_, ast.With) for a_ in ancestors(c)) and not (enclosing_func(c) is not fn and any(isinstance(y_, ast.With) and any(isinstance(i_.context_expr, ast.Call) and callee_name(i_.context_expr) == enclosing_func(c).name for i_ in y_.items) for y_ in ast.walk(fn)))]
        ob("C31", "C31.c", E, q, "I/O errors of the writer propagate (with-managed file, nothing swallowed)", not bad and not unmanaged)
        for b in bad:
            out.append(Finding("C31", "C31.c", E, q, " ".join(ast.unparse(b).split())[:90], "an exception raised while the output is written or closed is swallowed: a failed flush at close leaves a truncated file that is reported as generated and skipped by later runs", witness="OSError(ENOSPC) from the implicit flush in close()"))
        for c in unmanaged:
            if not bad: out.append(Finding("C31", "C31.c", E, q, ast.unparse(c)[:80], "the output file is not managed by a with statement: errors at close are not tied to the write"))
    return inst, out
def r_cli2(root):
    out = []; inst = 0
    # ---- C30.d
    # by evaluation of the command body: which meta-model loads which file, and the exit status
    from sa import pyeval
    t = load(root, CK); fn = find(t, "check.check")
    ps = [a.arg for a in fn.args.args]
    if ps[:2] != ["ctx", "model_files"]: raise AnalysisError("check: parameters %s" % ps)
    fns = {k: v for k, v in helper_functions(root, CK, "check.check").items() if k != "check"}
    def run(files, language=None, grammar=None, ignore_case=False, failing=(), unregistered=()):
        log = []
        def mm(tag):
            def model_from_file(f, **kw):
                log.append(("load", tag, f, kw.get("debug")))
                if f in failing:
                    r_ = pyeval.Raised("TextXSyntaxError"); r_.bases = ["TextXSyntaxError", "TextXError", "Exception"]; raise r_
                return {".kind": "model"}
            return {".kind": "metamodel", ".tag": tag, ".model_from_file": pyeval.PyFn(model_from_file)}
        def for_file(f):
            log.append(("for_file", f))
            if f in unregistered:
                r_ = pyeval.Raised("TextXRegistrationError"); r_.bases = ["TextXRegistrationError", "TextXError", "Exception"]; raise r_
            return mm("language of *" + f[f.index("."):])
        def for_language(l, **kw): log.append(("for_language", l)); return mm("language " + l)
        def from_file(g, **kw): log.append(("from_file", g, kw.get("debug"), kw.get("ignore_case"))); return mm("grammar " + g)
        def exit_(code=0):
            r_ = pyeval.Raised("SystemExit"); r_.value = {".code": code}; raise r_
        env = {"__functions__": fns, "ctx": {".obj": {"debug": "DBG"}}, "model_files": tuple(files), "language": language, "grammar": grammar, "ignore_case": ignore_case,
               "metamodel_for_file": pyeval.PyFn(for_file), "metamodel_for_language": pyeval.PyFn(for_language), "metamodel_from_file": pyeval.PyFn(from_file),
               "logger": {".info": pyeval.PyFn(lambda *a, **k: None), ".error": pyeval.PyFn(lambda *a, **k: None)}, "logging": {".error": pyeval.PyFn(lambda *a, **k: None), ".info": pyeval.PyFn(lambda *a, **k: None)},
               "sys": {".exit": pyeval.PyFn(exit_)}, "os": {".path": {".abspath": pyeval.PyFn(lambda f: "/abs/" + f), ".splitext": pyeval.PyFn(os.path.splitext), ".basename": pyeval.PyFn(os.path.basename), ".dirname": pyeval.PyFn(os.path.dirname), ".join": pyeval.PyFn(os.path.join)}}}
        for extra_ in ps[2:]: env.setdefault(extra_, None)
        try: pyeval.run_block(fn.body, env); status = 0
        except pyeval.Raised as r_:
            status = r_.value.get(".code") if r_.cls == "SystemExit" and isinstance(r_.value, dict) else "raises " + r_.cls
        except pyeval.Unsupported as u_: raise AnalysisError("check: outside the evaluated subset: %s" % u_)
        return status, [x[1:3] for x in log if x[0] == "load"], log
    CASES = [("three files of two languages, none named", dict(files=["a.x", "b.y", "c.x"]), 0, [("language of *.x", "a.x"), ("language of *.y", "b.y"), ("language of *.x", "c.x")]),
             ("two languages registered for patterns with the same last extension", dict(files=["a.x", "b.flow.x", "c.x"]), 0, [("language of *.x", "a.x"), ("language of *.flow.x", "b.flow.x"), ("language of *.x", "c.x")]),
             ("--language given", dict(files=["a.x", "b.y"], language="L"), 0, [("language L", "a.x"), ("language L", "b.y")]),
             ("--grammar given", dict(files=["a.x", "b.y"], grammar="g.tx", ignore_case=True), 0, [("grammar g.tx", "a.x"), ("grammar g.tx", "b.y")]),
             ("--grammar and --language given", dict(files=["a.x"], grammar="g.tx", language="L"), 0, [("grammar g.tx", "a.x")]),
             ("the second of three files is invalid", dict(files=["a.x", "b.y", "c.x"], failing=("b.y",)), 1, None),
             ("the last file is invalid", dict(files=["a.x", "b.y"], failing=("b.y",)), 1, None),
             ("no language is registered for the second file", dict(files=["a.x", "b.zz"], unregistered=("b.zz",)), 1, None),
             ("one valid file", dict(files=["a.x"]), 0, [("language of *.x", "a.x")])]
    for what, kw, want_status, want_loads in CASES:
        inst += 1
        status, loads, log = run(**kw)
        okc = status == want_status and (want_loads is None or loads == want_loads)
        if kw.get("grammar") and okc: okc = ("from_file", "g.tx", "DBG", kw.get("ignore_case", False)) in log
        if want_loads is not None and okc: okc = all(x[3] == "DBG" for x in log if x[0] == "load")
        ob("C30", "C30.d", CK, "check", what, okc)
        if not okc: out.append(Finding("C30", "C30.d", CK, "check", what, "textx check with %s: exit status %s, files checked %s; documented: exit status %s%s" % (what, status, loads, want_status, ", every file checked with the meta-model of its own language / the given grammar or language, with the debug flag of the command" if want_loads is not None else " (an invalid file or an unknown language is an error)")))
    # ---- C30.g  the generate command by evaluation: argument parsing, per-file language, validation against the generator's declaration, exit status
    tg_ = load(root, GN); gfn = find(tg_, "generate.generate")
    gps = [a.arg for a in gfn.args.args]
    for need in ("ctx", "arguments", "target"):
        if need not in gps: raise AnalysisError("generate: parameter %s not found (%s)" % (need, gps))
    gfns = {k: v for k, v in helper_functions(root, GN, "generate.generate").items() if k != "generate"}
    def arg_(name, mandatory=False): return {".kind": "arg", ".name": name, ".mandatory": mandatory, ".description": ""}
    DECL = {"lx": None, "ly": [arg_("name", True), arg_("my_flag"), arg_("opt")], "lz": [], "any": [arg_("name")], "textx": [arg_("name"), arg_("my_flag")], "L": [arg_("name", True)]}
    def grun(arguments, language=None, grammar=None, target="T", failing_gen=(), **opts):
        log = []
        def mm(tag):
            def model_from_file(f, **kw): log.append(("load", tag, f, dict(kw))); return {".kind": "model", ".file": f}
            return {".kind": "metamodel", ".tag": tag, ".model_from_file": pyeval.PyFn(model_from_file), ".model_param_defs": {"opt": "a model parameter"}}
        def lang_of(f): return "l" + f.rsplit(".", 1)[-1]
        def gen_desc(language, target, any_permitted=False):
            log.append(("describe", language, target, any_permitted))
            if language not in DECL:
                r_ = pyeval.Raised("TextXRegistrationError"); r_.bases = ["TextXRegistrationError", "TextXError", "Exception"]; raise r_
            def gen(metamodel, model, output_path, overwrite, debug, **kw):
                log.append(("generate", language, metamodel.get(".tag"), model.get(".file") if isinstance(model, dict) else model, output_path, overwrite, debug, dict(kw)))
                if language in failing_gen:
                    r_ = pyeval.Raised("TextXError"); r_.bases = ["TextXError", "Exception"]; raise r_
            return {".kind": "generator", ".language": language, ".target": target, ".custom_args": DECL[language], ".generator": pyeval.PyFn(gen)}
        def exit_(code=0):
            r_ = pyeval.Raised("SystemExit"); r_.value = {".code": code}; raise r_
        quiet = pyeval.PyFn(lambda *a, **k: None)
        env = {"__functions__": gfns, "ctx": {".obj": {"debug": "DBG"}}, "arguments": tuple(arguments), "language": language, "grammar": grammar, "target": target, "output_path": opts.get("output_path", "OUT"), "overwrite": opts.get("overwrite", "OVR"), "ignore_case": False,
               "metamodel_for_file": pyeval.PyFn(lambda f: mm("language " + lang_of(f))), "language_for_file": pyeval.PyFn(lambda f: {".name": lang_of(f)}), "metamodel_for_language": pyeval.PyFn(lambda l, **k: mm("language " + l)),
               "metamodel_from_file": pyeval.PyFn(lambda g, **k: mm("grammar " + g)), "generator_description": pyeval.PyFn(gen_desc),
               "TextXError": pyeval.PyFn(lambda *a, **k: {".cls": "TextXError", ".bases": ["TextXError"]}), "TextXRegistrationError": pyeval.PyFn(lambda *a, **k: {".cls": "TextXRegistrationError"}),
               "logger": {".info": quiet, ".error": quiet}, "logging": {".error": quiet, ".info": quiet}, "sys": {".exit": pyeval.PyFn(exit_)},
               "os": {".path": {".abspath": pyeval.PyFn(lambda f: "/abs/" + f), ".splitext": pyeval.PyFn(os.path.splitext), ".basename": pyeval.PyFn(os.path.basename), ".dirname": pyeval.PyFn(os.path.dirname), ".join": pyeval.PyFn(os.path.join)}}}
        for extra_ in gps: env.setdefault(extra_, None)
        try: pyeval.run_block(gfn.body, env); status = 0
        except pyeval.Raised as r_:
            status = r_.value.get(".code") if r_.cls == "SystemExit" and isinstance(r_.value, dict) else "raises " + r_.cls
        except pyeval.Unsupported as u_: raise AnalysisError("generate: outside the evaluated subset: %s" % u_)
        return status, [x[1:] for x in log if x[0] == "generate"], [x[1:] for x in log if x[0] == "load"], log
    G = lambda lang, mmtag, model, **kw: (lang, mmtag, model, "OUT", "OVR", "DBG", kw)
    GCASES = [
        ("two files of two languages, all declared arguments given", dict(arguments=["a.x", "--name", "N", "b.y", "--my-flag"]), 1, None, None),          # lx declares nothing (None: anything goes) but ly ... see below
        ("one file, a valued and a boolean argument with dashes", dict(arguments=["b.y", "--name", "'N'", "--my-flag"]), 0, [G("ly", "language ly", "b.y", name="N", my_flag=True)], [("language ly", "b.y", {})]),
        ("a model parameter among the arguments", dict(arguments=["b.y", "--opt", "7", "--name", "N"]), 0, [G("ly", "language ly", "b.y", opt="7", name="N")], [("language ly", "b.y", {"opt": "7"})]),
        ("a generator without declared arguments accepts any", dict(arguments=["a.x", "--whatever", "1"]), 0, [G("lx", "language lx", "a.x", whatever="1")], [("language lx", "a.x", {})]),
        ("the mandatory argument is missing and no argument is given at all", dict(arguments=["b.y"]), 1, [], None),
        ("the mandatory argument is missing, another one is given", dict(arguments=["b.y", "--my-flag"]), 1, [], None),
        ("an undeclared argument is given", dict(arguments=["b.y", "--name", "N", "--bogus", "1"]), 1, [], None),
        ("the second file's generator misses its mandatory argument", dict(arguments=["a.x", "b.y"]), 1, [G("lx", "language lx", "a.x")], None),
        ("the second file's generator gets an undeclared argument", dict(arguments=["a.x", "b.y", "--name", "N", "--bogus"]), 1, [G("lx", "language lx", "a.x", name="N", bogus=True)], None),
        ("a generator with an empty declaration and no arguments", dict(arguments=["c.z"]), 0, [G("lz", "language lz", "c.z")], None),
        ("--language given", dict(arguments=["a.x", "--name", "N"], language="L"), 0, [G("L", "language L", "a.x", name="N")], [("language L", "a.x", {})]),
        ("--grammar given", dict(arguments=["a.x", "--name", "N"], grammar="g.tx"), 0, [G("any", "grammar g.tx", "a.x", name="N")], None),
        ("no model file, custom arguments only", dict(arguments=["--name", "N"]), 0, [G("textx", "language textx", None, name="N")], []),
        ("no model file and no arguments", dict(arguments=[]), 1, [], []),
        ("no generator is registered for the language of the file", dict(arguments=["d.unknown"]), 1, [], None),
        ("the generator fails with a TextXError", dict(arguments=["c.z"], failing_gen=("lz",)), 1, None, None)]
    GCASES = GCASES[1:]
    for what, kw, want_status, want_gen, want_loads in GCASES:
        inst += 1
        status, gens, loads, log = grun(**kw)
        okc = status == want_status and (want_gen is None or gens == want_gen) and (want_loads is None or loads == want_loads)
        ob("C30", "C30.g", GN, "generate", what, okc)
        if not okc: out.append(Finding("C30", "C30.g", GN, "generate", what, "textx generate %s (%s): exit status %s, generator calls %s, models loaded %s; documented: exit status %s%s%s" % (" ".join(kw["arguments"]), what, status, gens, loads, want_status, ", generator calls %s" % (want_gen,) if want_gen is not None else "", ", models loaded %s" % (want_loads,) if want_loads is not None else "")))
    # the describe call is told whether the language was deduced (any_permitted)
    inst += 1
    _st, _g, _l, log = grun(arguments=["c.z"]); _st2, _g2, _l2, log2 = grun(arguments=["c.z"], language="lz")
    d1 = [x for x in log if x[0] == "describe"]; d2 = [x for x in log2 if x[0] == "describe"]
    okd = d1 == [("describe", "lz", "T", True)] and d2 == [("describe", "lz", "T", False)]
    ob("C30", "C30.g", GN, "generate", "generator lookup: deduced language may fall back to 'any', an explicit one may not", okd)
    if not okd: out.append(Finding("C30", "C30.g", GN, "generate", "generator_description(language, target, any_permitted)", "the generator is looked up as %s for a deduced language and %s for --language lz; documented (lz, T, any_permitted=True) and (lz, T, any_permitted=False)" % (d1, d2)))
    return inst, out
def r_C33c_C34g(root):
    out = []; inst = 0
    t = load(root, M); drv = find_i(root, M, "parse_tree_to_objgraph")
    pn = find_i(root, M, "parse_tree_to_objgraph.process_node"); fi = sem.info(pn)
    # C33.c (line/col handed to a match processor) is decided by evaluation: C13.h (sa/rules/cpn.py)
    # C34.g (lists sorted for every model after the last round) is decided by evaluation of the driver: C34.j (sa/rules/cdrv.py)
    return inst, out
def block_parent(stmt):
    return getattr(stmt, "_parent", None)

def r_C29e(root):
    """C29.e  dot_repr is relied on as a sanitiser by the exporters (the taint rule C29.a treats its result as clean):
       in its string branch every value interpolated into the result is the result of dot_escape (whole or sliced) —
       never the raw argument."""
    out = []; inst = 0
    fn = find(load(root, E), "dot_repr"); fi = sem.info(fn); p0 = fn.args.args[0].arg
    rets = [r for r in own_nodes(fn) if isinstance(r, ast.Return) and r.value is not None]
    if not rets: raise AnalysisError("dot_repr: no return found")
    for r in rets:
        at = [(a.replace(" ", ""), pol) for a, pol in fi.atoms_at(r)]
        if not any(a == "isinstance(%s,str)" % p0 and pol for a, pol in at): continue
        inst += 1; bad = None
        for x in ast.walk(r.value):
            if isinstance(x, ast.Name) and isinstance(x.ctx, ast.Load):
                v = fi.expand(x, at=r)
                core = v
                while isinstance(core, ast.Subscript): core = core.value
                if not (isinstance(core, ast.Call) and callee_name(core) in ("dot_escape", "html_escape", "len")): bad = (x, v)
        ob("C29", "C29.e", E, "dot_repr", "string branch returns only escaped text: %s" % " ".join(ast.unparse(r.value).split())[:70], bad is None)
        if bad: out.append(Finding("C29", "C29.e", E, "dot_repr", " ".join(ast.unparse(r).split())[:90], "the string branch of dot_repr puts %s into its result, which is not the output of dot_escape: quotes, braces and bars of attribute values reach the DOT label unescaped" % ast.unparse(bad[1])[:50], witness="a STRING attribute longer than 20 characters with a double quote among the first 20"))
    if inst < 1: raise AnalysisError("dot_repr: string branch not found")
    return inst, out

def r_C31d_C29f(root):
    """C31.d  the built-in generators write their output only under gen_file's protection and only to the file gen_file
              guards: in generators.py an exporter (a function imported from textx.export) is used only as the callback
              handed to gen_file — partial(exporter, ..., <file>) or a call inside a local function that is gen_file's
              callback — and the file it writes is the very expression passed to gen_file as output file.
       C29.f  html_escape, which the taint rule treats as a sanitiser, evaluated (sa/pyeval.py) on sample texts, equals the
              standard library's html.escape (every '<', '>', '&' and quote is escaped whatever else the text contains)."""
    import html as _html
    from sa import pyeval
    G = "textx/generators.py"; out = []; inst = 0
    t = load(root, G)
    exporters = {a.asname or a.name for n in t.body if isinstance(n, ast.ImportFrom) and (n.module or "").endswith("export") for a in n.names if "export" in a.name}
    if not exporters: raise AnalysisError("generators.py: no exporter imported from textx.export")
    # by evaluation: every generator function that mentions an exporter is interpreted (overwrite on and off) with recording
    # stand-ins -- gen_file runs the callback it is given, the exporters note whether they run inside gen_file and for which file
    import os as _os
    fns_g = {f.name: f for f in t.body if isinstance(f, ast.FunctionDef) and f.name != "gen_file"}
    for fn in [f for f in t.body if isinstance(f, ast.FunctionDef) and f.name != "gen_file"]:
        if not any(isinstance(n, ast.Name) and n.id in exporters for n in ast.walk(fn)): continue
        for overwrite in (False, True):
            inst += 1
            state = {"inside": None}; exported = []; guarded = []
            def _gen_file(input_file, output_file, gen_callback, overwrite=False, success_message="Done.", **kw):
                guarded.append(output_file); state["inside"] = output_file
                try: gen_callback()
                finally: state["inside"] = None
            def _exporter(name):
                def run(*a, **k): exported.append((name, state["inside"], a, k))
                return pyeval.PyFn(run)
            def _partial(f, *a, **k):
                if isinstance(f, pyeval.PyFn): return pyeval.PyFn(lambda *a2, **k2: f.fn(*a, *a2, **{**k, **k2}))
                return lambda *a2, **k2: f(*a, *a2, **{**k, **k2})
            model = {".file_name": "/in/grammar.tx", "._tx_filename": "/in/model.mdl", ".kind": "model"}
            ps = [a_.arg for a_ in fn.args.args]
            env = {"__functions__": {k_: v_ for k_, v_ in fns_g.items() if k_ != fn.name}, "__module__": t, "gen_file": pyeval.PyFn(_gen_file), "partial": pyeval.PyFn(_partial),
                   "os": {".makedirs": pyeval.PyFn(lambda *a, **k: None), ".replace": pyeval.PyFn(lambda *a, **k: None), ".rename": pyeval.PyFn(lambda *a, **k: None), ".remove": pyeval.PyFn(lambda *a, **k: None), ".getcwd": pyeval.PyFn(lambda: "/cwd"), ".path": {".isdir": pyeval.PyFn(lambda p_: True), ".dirname": pyeval.PyFn(_os.path.dirname), ".basename": pyeval.PyFn(_os.path.basename), ".splitext": pyeval.PyFn(lambda p_: list(_os.path.splitext(p_))), ".join": pyeval.PyFn(_os.path.join), ".abspath": pyeval.PyFn(lambda p_: p_), ".exists": pyeval.PyFn(lambda p_: False)}},
                   "PlantUmlRenderer": pyeval.PyFn(lambda *a, **k: {".kind": "renderer"}), "logger": {".info": pyeval.PyFn(lambda *a, **k: None), ".warning": pyeval.PyFn(lambda *a, **k: None)}}
            for e_ in exporters: env[e_] = _exporter(e_)
            vals = {"metamodel": {".kind": "mm"}, "model": model, "output_path": "/out", "overwrite": overwrite, "debug": False}
            for p_ in ps: env[p_] = vals.get(p_)
            if fn.args.kwarg: env[fn.args.kwarg.arg] = {}
            try: pyeval.run_block(fn.body, env); err_ = None
            except pyeval.Raised as r_: err_ = "raises " + r_.cls
            except pyeval.Unsupported as u_: raise AnalysisError("%s: outside the evaluated subset: %s" % (fn.name, u_))
            why = None
            if err_: why = "the generator %s" % err_
            elif not exported: why = "no exporter runs"
            else:
                for name, inside, a_, k_ in exported:
                    if inside is None: why = "the exporter %s runs outside gen_file (no removal of a partial file on failure, no skip/overwrite decision)" % name; break
                    if inside not in a_ and inside not in k_.values(): why = "the exporter %s writes %s, gen_file guards %s" % (name, [x for x in a_ if isinstance(x, str)][-1:], inside); break
            ob("C31", "C31.d", G, fn.name, "overwrite=%s: exporters run only as gen_file's callback, on gen_file's output file" % overwrite, why is None)
            if why: out.append(Finding("C31", "C31.d", G, fn.name, "overwrite=%s" % overwrite, why + ": a failure in the middle of the export leaves a partial file that the next run skips as already generated (or that nobody removes)", witness="textx generate --overwrite with a failing write"))
    if inst < 3: raise AnalysisError("generators.py: only %d exporter uses found" % inst)
    # ---- C29.f
    he = find(load(root, E), "html_escape"); p0 = he.args.args[0].arg
    for sample in ("a", "a<b", "a>b", "x & y", 'say "hi"', "->", "=>", "a<b>c&d"):
        inst += 1
        try: got = pyeval.run_block(he.body, {p0: sample, "escape": pyeval.PyFn(_html.escape), "html.escape": pyeval.PyFn(_html.escape), "html": {".escape": pyeval.PyFn(_html.escape)}})
        except pyeval.Unsupported as e: raise AnalysisError("html_escape: outside the evaluated subset: %s" % e)
        except pyeval.Raised as e: got = "raise " + e.cls
        ok = got == _html.escape(sample)
        ob("C29", "C29.f", E, "html_escape", "%r -> %r" % (sample, got), ok)
        if not ok: out.append(Finding("C29", "C29.f", E, "html_escape", "html_escape(%r)" % sample, "yields %r, html.escape gives %r: markup characters of match-rule texts reach the HTML-like label unescaped" % (got, _html.escape(sample)), witness="Arrow: '->' | '=>';"))
    return inst, out

def r_signals(root):
    """C31.e  the clean-up of a partially written output file runs in an `except BaseException` handler: it relies on Ctrl-C
    arriving as KeyboardInterrupt.  No module of the package changes a signal disposition (signal.signal, signal.set_wakeup_fd,
    signal.pthread_sigmask ...) or leaves the process abruptly (os._exit, os.abort).  Expected count on this tree: 0; a
    built-in fixture keeps the rule honest."""
    import ast, os
    out = []; inst = 0
    BAD = {"signal": {"signal", "set_wakeup_fd", "pthread_sigmask", "siginterrupt", "setitimer", "alarm"}, "os": {"_exit", "abort", "kill", "killpg"}}
    def scan(tree):
        res = []; alias = {}
        for n in ast.walk(tree):
            if isinstance(n, ast.Import):
                for a in n.names:
                    if a.name in BAD: alias[a.asname or a.name] = a.name
            if isinstance(n, ast.ImportFrom) and n.module in BAD:
                for a in n.names:
                    if a.name in BAD[n.module]: alias[a.asname or a.name] = (n.module, a.name)
        for n in ast.walk(tree):
            if isinstance(n, ast.Call):
                f = n.func
                if isinstance(f, ast.Attribute) and isinstance(f.value, ast.Name) and isinstance(alias.get(f.value.id), str) and f.attr in BAD[alias[f.value.id]]: res.append((n, "%s.%s" % (alias[f.value.id], f.attr)))
                if isinstance(f, ast.Name) and isinstance(alias.get(f.id), tuple): res.append((n, "%s.%s" % alias[f.id]))
        return res
    fx = ast.parse("import signal, os as o\nfrom signal import signal as s\ndef main():\n    signal.signal(signal.SIGINT, signal.SIG_DFL)\n    s(2, None)\n    o._exit(1)\n    o.getcwd()\n")
    if sorted(w for _n, w in scan(fx)) != ["os._exit", "signal.signal", "signal.signal"]: raise AnalysisError("signal rule: the built-in positive example is classified %s" % [w for _n, w in scan(fx)])
    for dp, dn, fnames in os.walk(os.path.join(root, "textx")):
        dn[:] = [d for d in dn if d != "__pycache__"]
        for fname in sorted(fnames):
            if not fname.endswith(".py"): continue
            rel = os.path.relpath(os.path.join(dp, fname), root); t = load(root, rel); inst += 1
            for n, what in scan(t):
                inst += 1
                for pr in ("C31", "C30"):
                    ob(pr, "C31.e", rel, qualname(n) or "module level", " ".join(ast.unparse(n).split())[:80], False)
                    out.append(Finding(pr, "C31.e", rel, qualname(n) or "module level", " ".join(ast.unparse(n).split())[:90], "%s changes how the process reacts to signals / ends: an interrupted generator run no longer raises KeyboardInterrupt through gen_file, whose handler removes the partially written output file - the next run skips the truncated file as already generated" % what, witness="textx generate ... --target X, Ctrl-C while the generator is writing"))
    for pr in ("C31", "C30"): ob(pr, "C31.e", "textx/", "package", "no module changes a signal disposition or exits abruptly (%d files)" % inst, not out)
    return max(inst, 1), out
