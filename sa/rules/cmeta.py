"""Per-class and per-object metadata set up by the meta-model, decided by evaluation (sa/pyeval.py with sample classes and
instances that distinguish own from inherited attributes; nothing of textX runs).

  C03.l / C25.i / C14.k   TextXMetaModel._init_class on a class that is a Python subclass of an already initialised
        (user) class, and on a class that was initialised before by another meta-model: afterwards the class OWNS
        fresh metadata -- an inheritor list that is its own (C03.l), the qualified name of the current namespace and
        the entry in that namespace (C25.i), its own empty attribute table and per-object storage, the meta-model and
        positions of this call (C14.k) -- whatever it inherits or carried before.
  C01.j (shared C02, C08, C14)   TextXMetaModel._init_obj_attrs on an instance whose class has class-level attributes
        named like grammar attributes: the instance OWNS every attribute of the rule -- a fresh list per list
        attribute, False for ?=, None (or the base type's default with auto_init_attributes) for the others."""
import ast
from sa.util import *
from sa import pyeval
MM = "textx/metamodel.py"
def _run(fn, env, what):
    try: return None, pyeval.run_block(fn.body, env)
    except pyeval.Raised as r_: return "raises " + r_.cls, None
    except pyeval.Unsupported as u_: raise AnalysisError("%s: outside the evaluated subset: %s" % (what, u_))
def r_initclass(root):
    out = []; inst = 0
    t = load(root, MM); ic = find(t, "TextXMetaModel._init_class")
    ps = [a.arg for a in ic.args.args]
    need = ("cls", "peg_rule", "position", "position_end", "inherits", "root", "rule_type", "external_attributes")
    if not set(need) <= set(ps): raise AnalysisError("_init_class: parameters %s do not include %s" % (ps, [n for n in need if n not in ps]))
    fns = {k: v for k, v in helper_functions(root, MM, "TextXMetaModel._init_class").items() if k not in ("_init_class",)}
    W = "TextXMetaModel._init_class"
    def scenario(prior_own, bases_own, nsname="pkg"):
        old_mm = {".kind": "metamodel", ".tag": "old"}
        base = pyeval.ClassObj("Base", bases_own(old_mm)) if bases_own else None
        cls = pyeval.ClassObj("Sub", prior_own(old_mm) if prior_own else {}, bases=[base] if base else [])
        ns = {}
        me = {".kind": "metamodel", ".tag": "new", ".file_name": "new.tx", ".namespaces": {nsname: ns, "__base__": ns if nsname == "__base__" else {}, "other": {}}, "._namespace_stack": ["other", nsname], ".rootcls": None}
        peg = {".kind": "peg-rule"}
        env = {"__functions__": fns, ps[0]: me, "cls": cls, "peg_rule": peg, "position": 5, "position_end": None, "inherits": None, "root": False, "rule_type": "common", "external_attributes": True,
               "OrderedDict": pyeval.PyFn(lambda *a: {}), "RULE_MATCH": "match", "RULE_COMMON": "common", "RULE_ABSTRACT": "abstract"}
        err, _ = _run(ic, env, "_init_class")
        return err, cls, base, me, ns, peg
    stale = lambda old: {"_tx_inh_by": ["inheritor of the earlier class"], "_tx_fqn": "old.ns.Base", "_tx_attrs": {"x": "attr of the earlier class"}, "_tx_obj_attrs": {1: {"a": 1}},
                         "_tx_metamodel": old, "_tx_filename": "old.tx", "_tx_position": 99, "_tx_position_end": 120, "_tx_type": "abstract", "_tx_peg_rule": "old rule"}
    for what, prior, bases in (("a class that is a Python subclass of an initialised user class", None, stale), ("a class initialised earlier by another meta-model", stale, None)):
        err, cls, base, me, ns, peg = scenario(prior, bases)
        own = cls.own
        def rep(prop, clause, ok, field, msg):
            nonlocal inst
            inst += 1; ob(prop, clause, MM, W, "%s: %s" % (what, field), ok)
            if not ok: out.append(Finding(prop, clause, MM, W, "%s: %s" % (what, field), msg))
        rep("C03", "C03.l", err is None, "completes", "_init_class on %s %s" % (what, err))
        if err is not None: continue
        inh = own.get("_tx_inh_by")
        rep("C03", "C03.l", isinstance(inh, list) and inh == [] and (base is None or inh is not base.own.get("_tx_inh_by")), "_tx_inh_by",
            "after _init_class(..., inherits=None) on %s the class's inheritor list is %s: it must be a new empty list of its own (a list found through a Python base class, or kept from before, makes unrelated rules conform: textx_isinstance and reference type checks go wrong)" % (what, "the list it inherits / had before" if inh else ("missing from the class's own attributes" if inh is None else inh)))
        rep("C25", "C25.i", own.get("_tx_fqn") == "pkg.Sub" and ns.get("Sub") is cls, "_tx_fqn and namespace entry",
            "after _init_class in namespace 'pkg' on %s the class's qualified name is %r and the namespace entry is %s: the qualified name must be namespace + '.' + rule name and must lead back to the class" % (what, own.get("_tx_fqn", "inherited/stale: " + str(cls.lookup("_tx_fqn")[1])), "the class" if ns.get("Sub") is cls else "missing"))
        rep("C14", "C14.k", own.get("_tx_attrs") == {} and own.get("_tx_obj_attrs") == {} and (base is None or own.get("_tx_attrs") is not base.own.get("_tx_attrs")), "_tx_attrs / _tx_obj_attrs",
            "after _init_class(..., external_attributes=True) on %s the class's own attribute table is %s and its per-object storage %s: both must be new and empty (they belong to this rule and this meta-model)" % (what, own.get("_tx_attrs", "not its own"), own.get("_tx_obj_attrs", "not its own")))
        rep("C14", "C14.k", own.get("_tx_metamodel") is me and own.get("_tx_filename") == "new.tx" and own.get("_tx_position") == 5 and own.get("_tx_position_end") == 5 and own.get("_tx_type") == "common" and own.get("_tx_peg_rule") is peg and peg.get("._tx_class") is cls, "meta-model, file, positions, rule type, PEG rule",
            "after _init_class on %s the class's own _tx_metamodel/_tx_filename/_tx_position/_tx_position_end/_tx_type/_tx_peg_rule are not those of this call (%s)" % (what, {k: own.get(k, "not its own") for k in ("_tx_filename", "_tx_position", "_tx_position_end", "_tx_type")}))
    # C25.d  the qualified name in every kind of namespace (the namespace that is current when the class is initialised)
    for nsname, want in (("pkg.mod", "pkg.mod.Sub"), ("__base__", "Sub"), (None, "Sub"), ("base", "base.Sub"), ("a", "a.Sub"), ("_", "_.Sub"), ("__base__x", "__base__x.Sub")):
        err, cls, base, me, ns, peg = scenario(None, None, nsname)
        inst += 1
        okq = err is None and cls.own.get("_tx_fqn") == want and ns.get("Sub") is cls
        ob("C25", "C25.d", MM, W, "qualified name of rule Sub in namespace %r" % (nsname,), okq)
        if not okq: out.append(Finding("C25", "C25.d", MM, W, "namespace %r" % (nsname,), "a class Sub initialised while the namespace %r is current %s; documented: %r (namespace + '.' + name, the bare name in the base namespace) and an entry in that namespace" % (nsname, ("gets the qualified name %r%s" % (cls.own.get("_tx_fqn"), "" if ns.get("Sub") is cls else " and no entry in the namespace")) if err is None else err, want)))
    return inst, out
def r_modelfromfile(root):
    """C27.g  TextXMetaModel.model_from_file decided by evaluation with recording stand-ins: the parameters the caller gives
    are checked against the declarations as given and reach the model (ModelParams) as given - same names, same values
    (a relative project_root stays relative, None stays None) -, before the file is loaded with the caller's file name,
    encoding and debug flag; an undeclared parameter stops the load before anything is read."""
    from sa.exprs import HS
    out = []; inst = 0
    t = load(root, MM); fn = find(t, "TextXMetaModel.model_from_file")
    ps = [a.arg for a in fn.args.args]
    if ps[:2] != ["self", "file_name"] or not fn.args.kwarg: raise AnalysisError("model_from_file: parameters %s" % ps)
    fns = {k: v for k, v in helper_functions(root, MM, "TextXMetaModel.model_from_file").items() if k not in ("model_from_file", "internal_model_from_file", "model_from_str")}
    def run(kwargs, reject=False):
        ev = []
        def check(source, **kw):
            ev.append(("check", source, dict(kw)))
            if reject:
                r_ = pyeval.Raised("TextXError"); r_.bases = ["TextXError", "Exception"]; raise r_
        def internal(file_name, encoding="utf-8", debug=None, pre_ref_resolution_callback=None, is_main_model=True, model_str=None, model_params=None, **k):
            ev.append(("load", file_name, encoding, debug, model_params, is_main_model)); return HS({".kind": "model"})
        me = HS({".kind": "metamodel", ".model_param_defs": HS({".check_params": pyeval.PyFn(check)}), ".internal_model_from_file": pyeval.PyFn(internal), ".debug": False})
        env = {"__functions__": fns, "__module__": t, "self": me, "file_name": "models/a.mdl", "encoding": "latin-1", "debug": "DBG", fn.args.kwarg.arg: dict(kwargs),
               "ModelParams": pyeval.PyFn(lambda d=None, **k: HS({".kind": "ModelParams", ".given": dict(d if d is not None else k)})), "abspath": pyeval.PyFn(lambda p_: "/abs/" + p_), "os": pyeval.TRUSTED["os"]}
        try: return "ret", pyeval.run_block(fn.body, env), ev
        except pyeval.Raised as r_: return "raise", r_.cls, ev
        except pyeval.Unsupported as u_: raise AnalysisError("model_from_file: outside the evaluated subset: %s" % u_)
    W = "TextXMetaModel.model_from_file"
    def rep(what, ok, msg):
        nonlocal inst
        inst += 1; ob("C27", "C27.g", MM, W, what, ok)
        if not ok: out.append(Finding("C27", "C27.g", MM, W, what, msg))
    for what, kw in (("a relative project_root, None, 0 and a mixed-case name", {"project_root": "../proj/", "limit": None, "n": 0, "outDir": "o"}), ("no parameters", {})):
        k, v, ev = run(kw)
        loads = [e for e in ev if e[0] == "load"]; checks = [e for e in ev if e[0] == "check"]
        ok = k == "ret" and len(loads) == 1 and len(checks) == 1 and checks[0][2] == kw and ev.index(checks[0]) < ev.index(loads[0]) and isinstance(loads[0][4], dict) and loads[0][4].get(".given") == kw and loads[0][1:4] == ("models/a.mdl", "latin-1", "DBG")
        rep(what, ok, "model_from_file('models/a.mdl', encoding='latin-1', debug='DBG', %s) %s, checking %s and loading with %s; documented: the parameters are checked and handed to the model exactly as given (same names, same values), the file is loaded with the caller's file name, encoding and debug flag" % (", ".join("%s=%r" % x for x in kw.items()), "returns" if k == "ret" else "raises " + str(v), [c[2] for c in checks], [(l[1], l[2], l[3], l[4].get(".given") if isinstance(l[4], dict) else l[4]) for l in loads]))
    k, v, ev = run({"undeclared": 1}, reject=True)
    rep("an undeclared parameter stops the load", k == "raise" and v == "TextXError" and not [e for e in ev if e[0] == "load"], "with a parameter that check_params rejects model_from_file %s and %s; documented: the TextXError propagates and nothing is loaded" % ("raises " + str(v) if k == "raise" else "returns", "loads the file" if [e for e in ev if e[0] == "load"] else "loads nothing"))
    return inst, out
def r_modelfromstr(root):
    """C28.j  TextXMetaModel.model_from_str decided by evaluation with recording stand-ins, on meta-models with and without
    scope providers / a global repository:
      a text given together with a file name is loaded as that file: internal_model_from_file gets the file name, the text
      (unchanged), encoding, debug flag, the caller's callback and the caller's parameters (checked first) - so errors,
      locations and relative imports name the file;
      a text without file name is parsed by a clone of the parser blueprint (text unchanged), every model of the load gets
      the parameters before the caller's callback runs, and the model processors run afterwards with the snapshot of the
      models cached before;  anything but a string is refused with TextXError."""
    from sa.exprs import HS
    out = []; inst = 0
    t = load(root, MM); fn = find(t, "TextXMetaModel.model_from_str")
    ps = [a.arg for a in fn.args.args]
    if ps[:2] != ["self", "model_str"] or "file_name" not in ps or not fn.args.kwarg: raise AnalysisError("model_from_str: parameters %s" % ps)
    fns = {k: v for k, v in helper_functions(root, MM, "TextXMetaModel.model_from_str").items() if k not in ("model_from_file", "internal_model_from_file", "model_from_str", "_call_model_processors", "_cached_model_ids")}
    TEXT = "line one\r\nline two\n"
    def run(file_name, providers, with_repo, text=TEXT, kwargs=None):
        ev = []; kwargs = dict(kwargs if kwargs is not None else {"project_root": "../p", "n": 0})
        user_cb = pyeval.PyFn(lambda m_: ev.append(("user callback", m_)))
        model = HS({".kind": "model", "._tx_metamodel": "mm"})
        def internal(file_name, encoding="utf-8", debug=None, pre_ref_resolution_callback=None, is_main_model=True, model_str=None, model_params=None, **k):
            ev.append(("internal", file_name, encoding, debug, pre_ref_resolution_callback, model_str, model_params, is_main_model)); return model
        def gmfs(model_str, file_name=None, debug=None, pre_ref_resolution_callback=None, is_main_model=True, encoding="utf-8", **k):
            ev.append(("parse", model_str, file_name, debug, is_main_model))
            if pre_ref_resolution_callback is not None: pre_ref_resolution_callback(model)
            return model
        blue = HS({".kind": "parser", ".clone": pyeval.PyFn(lambda: (ev.append(("clone",)), HS({".kind": "parser clone", ".get_model_from_str": pyeval.PyFn(gmfs)}))[1])})
        me = HS({".kind": "metamodel", ".model_param_defs": HS({".check_params": pyeval.PyFn(lambda source, **kw: ev.append(("check", source, dict(kw))))}), ".internal_model_from_file": pyeval.PyFn(internal), ".debug": False,
                 ".scope_providers": dict(providers), "._parser_blueprint": blue, "._cached_model_ids": pyeval.PyFn(lambda: (ev.append(("snapshot",)), "snapshot")[1]), "._call_model_processors": pyeval.PyFn(lambda m_, c_=None: ev.append(("processors", m_, c_)))})
        if with_repo: me["._tx_model_repository"] = HS({".kind": "repo"})
        env = {"__functions__": fns, "__module__": t, "self": me, "model_str": text, "file_name": file_name, "encoding": "latin-1", "debug": "DBG", "pre_ref_resolution_callback": user_cb, fn.args.kwarg.arg: kwargs,
               "ModelParams": pyeval.PyFn(lambda d=None, **k: HS({".kind": "ModelParams", ".given": dict(d if d is not None else k)})), "TextXError": pyeval.PyFn(lambda *a, **k: {".cls": "TextXError"}), "os": pyeval.TRUSTED["os"]}
        for p_ in ps[2:]:
            if p_ not in env: raise AnalysisError("model_from_str: unexpected parameter %s" % p_)
        try: return "ret", pyeval.run_block(fn.body, env), ev, model, user_cb, kwargs
        except pyeval.Raised as r_: return "raise", r_.cls, ev, model, user_cb, kwargs
        except pyeval.Unsupported as u_: raise AnalysisError("model_from_str: outside the evaluated subset: %s" % u_)
    W = "TextXMetaModel.model_from_str"
    def rep(what, ok, msg):
        nonlocal inst
        inst += 1
        for pr in ("C28", "C33", "C27"):
            ob(pr, "C28.j", MM, W, what, ok)
            if not ok: out.append(Finding(pr, "C28.j", MM, W, what, msg, witness="model_from_str(text, file_name='a.mdl') on a meta-model without scope providers, text with an error"))
    for providers, with_repo in (({}, False), ({"*.*": "a provider"}, False), ({}, True)):
        cfg = "a meta-model with%s scope providers and with%s global repository" % ("" if providers else "out", "" if with_repo else "out")
        k, v, ev, model, cb, kw = run("models/a.mdl", providers, with_repo)
        ints = [e for e in ev if e[0] == "internal"]; chk = [e for e in ev if e[0] == "check"]
        ok = k == "ret" and v is model and len(ints) == 1 and not [e for e in ev if e[0] in ("parse", "clone")] and len(chk) == 1 and chk[0][2] == kw and ev.index(chk[0]) < ev.index(ints[0]) and ints[0][1:4] == ("models/a.mdl", "latin-1", "DBG") and ints[0][4] is cb and ints[0][5] == TEXT and isinstance(ints[0][6], dict) and ints[0][6].get(".given") == kw
        rep("text with a file name, %s" % cfg, ok, "model_from_str(text, file_name='models/a.mdl', encoding='latin-1', debug='DBG', callback, project_root='../p', n=0) on %s %s after the steps %s; documented: the parameters are checked, then the text is loaded as that file - internal_model_from_file('models/a.mdl', 'latin-1', 'DBG', model_str=<the text unchanged>, the callback, the parameters) - whatever the meta-model's configuration" % (cfg, "returns the model" if k == "ret" and v is model else ("raises %s" % v if k == "raise" else "returns something else"), [(e[0],) + tuple(x_ if isinstance(x_, (str, type(None))) else "..." for x_ in e[1:4]) for e in ev]))
        k, v, ev, model, cb, kw = run(None, providers, with_repo)
        pr_ = [e for e in ev if e[0] == "parse"]; ucb = [e for e in ev if e[0] == "user callback"]; proc = [e for e in ev if e[0] == "processors"]
        ok = k == "ret" and v is model and len(pr_) == 1 and pr_[0][1] == TEXT and pr_[0][2] is None and pr_[0][3] == "DBG" and not [e for e in ev if e[0] == "internal"] and len(ucb) == 1 and ucb[0][1] is model and isinstance(model.get("._tx_model_params"), dict) and model["._tx_model_params"].get(".given") == kw and len(proc) == 1 and proc[0][1] is model and proc[0][2] == "snapshot" and ev.index(ucb[0]) < ev.index(proc[0]) and [e for e in ev if e[0] == "clone"] and ("snapshot",) in ev and ev.index(("snapshot",)) < ev.index(pr_[0])
        rep("text without file name, %s" % cfg, ok, "model_from_str(text, debug='DBG', callback, project_root='../p', n=0) on %s %s after the steps %s, the model's parameters are %s; documented: a clone of the parser blueprint parses the text unchanged, the model gets the parameters as given and the caller's callback runs once, then the model processors run with the snapshot of the cached models taken before the parse (a model processor that fails removes exactly the models this load added)" % (cfg, "returns the model" if k == "ret" and v is model else ("raises %s" % v if k == "raise" else "returns something else"), [e[0] for e in ev], model.get("._tx_model_params", {}).get(".given") if isinstance(model.get("._tx_model_params"), dict) else model.get("._tx_model_params")))
        ok_s = bool(pr_) and ("snapshot",) in ev and ev.index(("snapshot",)) < ev.index(pr_[0]) and len(proc) == 1 and proc[0][2] == "snapshot"
        for pr in ("C16", "C15", "C18"):
            ob(pr, "C28.j", MM, W, "snapshot of the cached models before the parse, %s" % cfg, ok_s)
            if not ok_s: out.append(Finding(pr, "C28.j", MM, W, "snapshot of the cached models before the parse, %s" % cfg, "model_from_str(text) on %s takes the steps %s: the model processors must get the snapshot of the models cached *before* this load parsed anything - with a later snapshot a failing model processor leaves the models of the failed load in the global repository, and every later load of those files returns them" % (cfg, [e[0] for e in ev]), witness="global_repository=True, a model processor that raises, then the same text loaded again"))
    k, v, ev, model, cb, kw = run(None, {}, False, text=b"bytes")
    rep("anything but a string is refused", k == "raise" and v == "TextXError" and not [e for e in ev if e[0] in ("parse", "internal")], "model_from_str(b'bytes') %s; documented TextXError before anything is parsed" % ("raises %s" % v if k == "raise" else "is accepted"))
    return inst, out
def r_initobj(root):
    out = []; inst = 0
    t = load(root, MM); io = find(t, "TextXMetaModel._init_obj_attrs")
    ps = [a.arg for a in io.args.args]
    fns = {k: v for k, v in helper_functions(root, MM, "TextXMetaModel._init_obj_attrs").items() if k != "_init_obj_attrs"}
    W = "TextXMetaModel._init_obj_attrs"
    def cls_(n): return {".__name__": n, ".kind": "cls"}
    def attr(name, c, mult, boolasg=False): return {".name": name, ".cls": c, ".mult": mult, ".bool_assignment": boolasg, ".cont": True, ".ref": False, ".kind": "metaattr"}
    attrs = {"items": attr("items", cls_("Item"), "1..*"), "more": attr("more", cls_("STRING"), "0..*"), "count": attr("count", cls_("INT"), "1"), "flag": attr("flag", cls_("BOOL"), "0..1", True),
             "base": attr("base", cls_("Thing"), "0..1"), "label": attr("label", cls_("STRING"), "1")}
    for auto in (False, True):
        shared = ["shared by all instances"]
        U = pyeval.ClassObj("U", {"_tx_attrs": attrs, "items": shared, "base": "class-level default", "count": 7, "flag": True})
        objs = [pyeval.InstObj(U), pyeval.InstObj(U)]
        me = {".kind": "metamodel", ".auto_init_attributes": auto}
        errs = []
        for o in objs:
            env = {"__functions__": fns, ps[0]: me, ps[1]: o, "MULT_ZEROORMORE": "0..*", "MULT_ONEORMORE": "1..*", "MULT_ONE": "1", "MULT_OPTIONAL": "0..1",
                   "BASE_TYPE_NAMES": ["ID", "BOOL", "INT", "FLOAT", "STRICTFLOAT", "STRING", "NUMBER", "BASETYPE"], "PRIMITIVE_PYTHON_TYPES": [],
                   "python_type": pyeval.PyFn(lambda n: pyeval.PyFn({"INT": int, "BOOL": bool, "STRING": str, "FLOAT": float, "ID": str}.get(n, str)))}
            e_, _ = _run(io, env, "_init_obj_attrs"); errs.append(e_)
        what = "auto_init_attributes %s" % ("on" if auto else "off")
        def rep(ok, field, msg, also=()):
            nonlocal inst
            inst += 1
            for pr in ("C01",): ob(pr, "C01.j", MM, W, "%s: %s" % (what, field), ok)
            if not ok: out.append(Finding("C01", "C01.j", MM, W, "%s: %s" % (what, field), msg))
        rep(not any(errs), "completes", "_init_obj_attrs on an instance of a user class %s" % [e for e in errs if e])
        if any(errs): continue
        o1, o2 = objs
        missing = [n for n in attrs if n not in o1.own]
        rep(not missing, "every attribute of the rule is set on the object itself", "a user class has class-level attributes named %s; after _init_obj_attrs the object itself lacks %s: a class-level value is not the object's attribute (lists are shared by all objects, __init__ does not receive the attribute)" % (sorted(set(U.own) & set(attrs)), missing))
        if missing: continue
        rep(o1.own["items"] == [] and o1.own["more"] == [] and o1.own["items"] is not shared and o1.own["items"] is not o2.own["items"] and o1.own["items"] is not o1.own["more"], "list attributes start as fresh empty lists", "list attributes are initialised to %s / %s: each object needs its own new empty list per attribute" % (o1.own["items"], o1.own["more"]))
        want = {"count": 0 if auto else None, "flag": False, "base": None, "label": "" if auto else None}
        got = {k: o1.own[k] for k in want}
        rep(got == want and all(type(got[k]) is type(want[k]) for k in want), "defaults of the single-valued attributes", "single-valued attributes start as %s; documented %s (False for ?=, None for references, and for base types None or, with auto_init_attributes, the type's default)" % (got, want))
    return inst, out

def r_mmapi(root):
    """C04.g / C13.g  the conversion and processor API of the meta-model, decided by evaluation on a meta-model object
    built by interpreting the analysed TextXMetaModel.__init__ (sa/objmodel.py; nothing of textX runs):
      C04.g  process(text, base type) gives the documented Python value AND type for sample literals of every base type,
             whatever was converted before (the same text as FLOAT and then as INT is a float and then an int);
             a type without processor leaves the value as it is
      C13.g  register_obj_processors replaces the previous registration: the processor that runs for a type is always the
             one of the latest registration, the built-in conversion comes back when it is no longer overridden, and
             has_obj_processor agrees with what process would run"""
    from sa import objmodel
    out = []; inst = 0
    me, base = objmodel.new_metamodel(root)
    def proc(text, typ):
        k, v = objmodel.call_method(root, me, base, "process", text, typ, "model.file", 2, 1)
        return (k, v if k == "ret" else v.cls)
    def rep(prop, clause, fn_, what, ok, msg, witness=""):
        nonlocal inst
        inst += 1; ob(prop, clause, MM, fn_, what, ok)
        if not ok: out.append(Finding(prop, clause, MM, fn_, what, msg, witness=witness))
    table = [("BOOL", "true", True), ("BOOL", "True", True), ("BOOL", "TRUE", True), ("BOOL", "1", True), ("BOOL", "false", False), ("BOOL", "False", False), ("BOOL", "0", False),
             ("FLOAT", "7", 7.0), ("INT", "7", 7), ("STRICTFLOAT", "7.0", 7.0), ("INT", "-3", -3), ("INT", "+4", 4), ("INT", "007", 7), ("FLOAT", "1e3", 1000.0), ("FLOAT", ".5", 0.5), ("FLOAT", "-2.5", -2.5), ("INT", "7", 7), ("FLOAT", "7", 7.0),
             ("INT", "9007199254740993", 9007199254740993), ("FLOAT", "9007199254740993", 9007199254740992.0), ("INT", "9007199254740993", 9007199254740993),
             ("STRING", '"a\\"b"', 'a"b'), ("STRING", "'it\\'s'", "it's"), ("STRING", '"it\\\'s"', "it\\'s"), ("STRING", '""', ""), ("STRING", "'7'", "7"), ("INT", "7", 7),
             ("NoSuchType", "as it is", "as it is"), ("ID", "name", "name")]
    for typ, text, want in table:
        k, v = proc(text, typ)
        ok = k == "ret" and v == want and type(v) is type(want)
        rep("C04", "C04.g", "TextXMetaModel.process", "%s %r -> %r" % (typ, text, v), ok, "the text %r matched by %s is converted to %s; documented: %r (%s)%s" % (text, typ, "%r (%s)" % (v, type(v).__name__) if k == "ret" else "an exception %s" % v, want, type(want).__name__, " - the result must not depend on what was converted before" if k == "ret" and v == want else ""), witness="attr=%s on %r" % (typ, text))
    # ---- C13.g
    calls_ = []
    def mk(tag):
        def p(v): calls_.append(tag); return (tag, v)
        return pyeval.PyFn(p)
    def reg(tab):
        k, v = objmodel.call_method(root, me, base, "register_obj_processors", tab)
        if k != "ret": raise AnalysisError("register_obj_processors raises %s under evaluation" % v.cls)
    def has(t_):
        k, v = objmodel.call_method(root, me, base, "has_obj_processor", t_); return v if k == "ret" else "raises " + v.cls
    steps = [({"INT": mk("p1"), "Rule": mk("r1")}, [("INT", "7", ("p1", "7")), ("Rule", "obj", ("r1", "obj")), ("FLOAT", "7", 7.0)], {"INT": True, "Rule": True, "Other": False}),
             ({"INT": mk("p2")}, [("INT", "7", ("p2", "7")), ("Rule", "obj", "obj")], {"INT": True, "Rule": False}),
             ({"Rule": mk("r3")}, [("INT", "7", 7), ("Rule", "obj", ("r3", "obj"))], {"Rule": True, "Other": False}),
             ({}, [("INT", "7", 7), ("Rule", "obj", "obj"), ("BOOL", "1", True)], {"Rule": False})]
    for i_, (tab, checks, hasses) in enumerate(steps):
        reg(tab)
        for typ, text, want in checks:
            k, v = proc(text, typ)
            v = tuple(v) if isinstance(v, list) else v
            ok = k == "ret" and v == want and type(v) is type(want)
            rep("C13", "C13.g", "TextXMetaModel.register_obj_processors / process", "registration %d (%s): %s %r -> %r" % (i_ + 1, sorted(tab), typ, text, v), ok,
                "after registration number %d (for %s, replacing the earlier ones) the value %r of %s is processed to %r; documented %r: the latest registration alone decides which processor runs, the built-in conversion applies where it does not override it" % (i_ + 1, sorted(tab) or "nothing", text, typ, v, want), witness="register_obj_processors twice on one meta-model, load a model after each")
        for t_, want in hasses.items():
            got = has(t_)
            rep("C13", "C13.g", "TextXMetaModel.has_obj_processor", "registration %d: has_obj_processor(%r) -> %r" % (i_ + 1, t_, got), got is want, "after registration number %d (for %s) has_obj_processor(%r) answers %r, documented %r" % (i_ + 1, sorted(tab) or "nothing", t_, got, want))
    return inst, out

def r_namespaces(root):
    """C25.j / C25.k  by evaluation:
      C25.j  TextXMetaModel._namespace_for_file_name on a meta-model object built by interpreting __init__ for the main
             file /proj/main.tx: the namespace of the main grammar file (a file in the root directory) is its name without the
             extension - whatever letters the name ends in (syntax.tx, text.tx, ext.tx, x.tx.tx)
      C25.k  TextXVisitor.visit_reference_stm: `reference L as a` makes L known under the alias a and under nothing else;
             `reference L` under L itself"""
    from sa import objmodel
    out = []; inst = 0
    me, base = objmodel.new_metamodel(root, file_name="/proj/main.tx")
    for f, want in (("/proj/main.tx", "main"), ("/proj/syntax.tx", "syntax"), ("/proj/text.tx", "text"), ("/proj/ext.tx", "ext"), ("/proj/xt.tx", "xt"), ("/proj/t.tx", "t"), ("/proj/x.tx.tx", "x.tx"), (None, None)):
        inst += 1
        k, v = objmodel.call_method(root, me, base, "_namespace_for_file_name", f)
        ok = k == "ret" and v == want
        ob("C25", "C25.j", MM, "TextXMetaModel._namespace_for_file_name", "%s -> %r" % (f, v if k == "ret" else "raises " + v.cls), ok)
        if not ok: out.append(Finding("C25", "C25.j", MM, "TextXMetaModel._namespace_for_file_name", str(f), "with the main grammar in /proj the namespace of %s is %r, documented %r: classes of that file get a wrong qualified name and are not found under the documented one" % (f, v if k == "ret" else "an exception " + v.cls, want), witness="grammar file %s" % f))
    L = "textx/lang.py"; vr = find(load(root, L), "TextXVisitor.visit_reference_stm"); ps = [a.arg for a in vr.args.args]
    for children, want in ((["types", "t"], {"t": "types"}), (["types"], {"types": "types"}), (["a.b.Lang", "l"], {"l": "a.b.Lang"})):
        inst += 1
        mm = {".kind": "metamodel", ".referenced_languages": {"earlier": "Earlier"}}
        env = {"__functions__": {k_: v_ for k_, v_ in helper_functions(root, L, "TextXVisitor.visit_reference_stm").items() if k_.startswith("_") and not k_.startswith("__")}, ps[0]: {".kind": "visitor", ".metamodel": mm, ".debug": False}, ps[1]: {".kind": "node", ".position": 0}, ps[2]: list(children)}
        err, _v = _run(vr, env, "visit_reference_stm")
        got = {k_: v_ for k_, v_ in mm[".referenced_languages"].items() if k_ != "earlier"}
        ok = err is None and got == want and mm[".referenced_languages"].get("earlier") == "Earlier"
        ob("C25", "C25.k", L, "TextXVisitor.visit_reference_stm", "reference %s -> %s" % (" as ".join(children), got), ok)
        if not ok: out.append(Finding("C25", "C25.k", L, "TextXVisitor.visit_reference_stm", "reference " + " as ".join(children), "the statement  reference %s  makes these language names known: %s%s; documented exactly %s (a name that is not declared must keep denoting what it denotes otherwise, e.g. an imported grammar file of that name)" % (" as ".join(children), got, " (%s)" % err if err else "", want), witness="reference types as t + import types"))
    return inst, out

def r_modelparams(root):
    """C27.f  textx/model_params.py decided by evaluation (its classes are instantiated by interpreting their __init__):
    parameter definitions are kept and checked under the very name they were added with - a declared name is accepted by
    check_params in exactly its own spelling, any other spelling and any undeclared name is a TextXError; ModelParams keeps
    the values it was given (also None), hands them out under their own names and records which were read."""
    out = []; inst = 0
    MP = "textx/model_params.py"; t = load(root, MP)
    cds = {c.name: c for c in t.body if isinstance(c, ast.ClassDef)}
    for need in ("ModelParams", "ModelParamDefinitions"):
        if need not in cds: raise AnalysisError("model_params.py: class %s not found" % need)
    env = {"__classdefs__": cds, "__functions__": {f.name: f for f in t.body if isinstance(f, ast.FunctionDef)}, "__module__": None,
           "ModelParamDefinition": pyeval.PyFn(lambda name, description: {".name": name, ".description": description, ".kind": "definition"}),
           "TextXError": pyeval.PyFn(lambda *a, **k: {".cls": "TextXError"}), "reduce": pyeval.PyFn(lambda f, it, init: __import__("functools").reduce(f, list(it), init)), "iter": pyeval.PyFn(lambda x: list(x))}
    def call(o, meth, *a, **k):
        c_, f_ = pyeval.find_method(cds, o[".__cls__"], meth)
        if f_ is None: raise AnalysisError("%s.%s not found" % (o[".__cls__"], meth))
        try: return ("ret", pyeval.call_method_of(o, c_, f_, list(a), k, env))
        except pyeval.Raised as r_: return ("raise", r_.cls)
        except pyeval.Unsupported as u_: raise AnalysisError("%s.%s: outside the evaluated subset: %s" % (o[".__cls__"], meth, u_))
    def rep(what, ok, msg, fn_="ModelParamDefinitions"):
        nonlocal inst
        inst += 1; ob("C27", "C27.f", MP, fn_, what, ok)
        if not ok: out.append(Finding("C27", "C27.f", MP, fn_, what, msg))
    try: defs = pyeval.instantiate("ModelParamDefinitions", [], {}, env)
    except pyeval.Unsupported as u_: raise AnalysisError("ModelParamDefinitions(): outside the evaluated subset: %s" % u_)
    for n_ in ("outDir", "strict", "project_root", "Mixed-Name"): call(defs, "add", n_, "description of " + n_)
    for given, ok_want in (("outDir", True), ("strict", True), ("project_root", True), ("Mixed-Name", True), ("outdir", False), ("OUTDIR", False), ("Strict", False), ("mixed_name", False), ("mixed-name", False), ("unknown", False)):
        k, v = call(defs, "check_params", "the source", **{given: 1})
        ok = (k == "ret") if ok_want else (k == "raise" and str(v).startswith("TextX"))
        rep("parameter %r %s" % (given, "accepted" if k == "ret" else "rejected"), ok, "with the parameters outDir, strict, project_root and Mixed-Name declared, a load given the parameter %r is %s; documented: %s (a parameter is known under exactly the name it was declared with)" % (given, "accepted" if k == "ret" else "rejected with %s" % v, "accepted" if ok_want else "a TextXError"), )
    k, v = call(defs, "__getitem__", "outDir")
    rep("a declared definition is found under its name", k == "ret" and isinstance(v, dict) and v.get(".name") == "outDir", "the definition declared as 'outDir' %s" % ("is found as %r" % (v,) if k == "ret" else "is not found under that name (%s)" % v))
    k, v = call(defs, "__iter__")
    rep("the declared names are listed as declared", k == "ret" and sorted(v) == sorted(["outDir", "strict", "project_root", "Mixed-Name"]), "iterating the definitions yields %s, declared were outDir, strict, project_root, Mixed-Name" % (sorted(v) if k == "ret" else v,))
    try: mp = pyeval.instantiate("ModelParams", [{"outDir": "/o", "strict": None, "n": 0}], {}, env)
    except pyeval.Unsupported as u_: raise AnalysisError("ModelParams(): outside the evaluated subset: %s" % u_)
    vals = [call(mp, "__getitem__", k_) for k_ in ("outDir", "strict", "n")]
    rep("values are handed out as given (also None and 0)", vals == [("ret", "/o"), ("ret", None), ("ret", 0)], "ModelParams({'outDir': '/o', 'strict': None, 'n': 0}) hands out %s" % (vals,), "ModelParams")
    k, v = call(mp, "__iter__"); k2, v2 = call(mp, "__len__")
    rep("all given parameters are exposed", k == "ret" and sorted(v) == ["n", "outDir", "strict"] and (k2, v2) == ("ret", 3), "the parameters exposed by the model are %s (%s of them); given were n, outDir, strict" % (sorted(v) if k == "ret" else v, v2), "ModelParams")
    k, v = call(mp, "__getitem__", "missing")
    rep("an absent parameter is a KeyError", k == "raise" and v == "KeyError", "reading a parameter that was not given %s" % ("returns %r" % (v,) if k == "ret" else "raises %s" % v), "ModelParams")
    # the Mapping mix-ins (get, __contains__) follow from __getitem__ unless the class writes its own: then its own are evaluated
    if pyeval.find_method(cds, "ModelParams", "get")[1] is not None:
        vals = [call(mp, "get", k_, "the default") for k_ in ("outDir", "strict", "n", "missing")]
        rep("get() hands out given values as given (also None and 0), the default only for an absent name", vals == [("ret", "/o"), ("ret", None), ("ret", 0), ("ret", "the default")], "ModelParams({'outDir': '/o', 'strict': None, 'n': 0}).get(name, 'the default') for outDir, strict, n, missing gives %s" % (vals,), "ModelParams.get")
    if pyeval.find_method(cds, "ModelParams", "__contains__")[1] is not None:
        vals = [call(mp, "__contains__", k_) for k_ in ("outDir", "strict", "n", "missing")]
        rep("every given name is contained (also with the value None or 0), an absent one is not", [(k_, bool(v_)) for k_, v_ in vals] == [("ret", True)] * 3 + [("ret", False)], "'name in params' for outDir, strict, n, missing gives %s" % (vals,), "ModelParams.__contains__")
    return inst, out

def r_internalload(root):
    """C17.o  TextXMetaModel.internal_model_from_file decided by evaluation with recording stand-ins (parser blueprint, open(),
    the interpreted ModelRepository table):
      the text - read from the file with the caller's encoding, or given by the caller - reaches a clone of the parser
      blueprint unchanged (also '\\r\\n' line ends and a trailing blank), with the absolute file name, debug flag, encoding
      and is_main_model; every model of the load gets the caller's parameters (the same object) before the caller's
      callback runs; the model processors run afterwards with the snapshot of the models cached before;
      with a global repository a cached file is returned without parsing (also when that model object is falsy), and a
      model parsed without a caller's callback is registered in the repository's table of all models under its file name
      and gets a repository sharing that table."""
    from sa.exprs import HS
    out = []; inst = 0
    t = load(root, MM); fn = find(t, "TextXMetaModel.internal_model_from_file")
    ps = [a.arg for a in fn.args.args]
    want_ps = ["self", "file_name", "encoding", "debug", "pre_ref_resolution_callback", "is_main_model", "model_str", "model_params"]
    if ps != want_ps: raise AnalysisError("internal_model_from_file: parameters %s" % ps)
    fns = {k: v for k, v in helper_functions(root, MM, "TextXMetaModel.internal_model_from_file").items() if k not in ("model_from_file", "internal_model_from_file", "model_from_str", "_call_model_processors", "_cached_model_ids")}
    ts = load(root, "textx/scoping/__init__.py"); cds = {c.name: c for c in ts.body if isinstance(c, ast.ClassDef)}
    fns_s = {f.name: f for f in ts.body if isinstance(f, ast.FunctionDef)}
    FILE_TEXT = "from the file\r\nsecond line \n"; GIVEN = "given text\r\nsecond line \n"
    class _Falsy(HS):
        def __bool__(s): return False
        def __len__(s): return 0
    def run(model_str=None, callback=True, repo=False, cached=None, main=True):
        ev = []
        model = HS({".kind": "model", "._tx_metamodel": "mm", "._tx_filename": "/abs/models/a.mdl"})
        user_cb = pyeval.PyFn(lambda m_: ev.append(("user callback", m_, m_.get("._tx_model_params")))) if callback else None
        def gmfs(model_str, file_name=None, debug=None, pre_ref_resolution_callback=None, is_main_model=True, encoding="utf-8", **k):
            ev.append(("parse", model_str, file_name, debug, encoding, is_main_model))
            if pre_ref_resolution_callback is not None: pre_ref_resolution_callback(model)
            return model
        blue = HS({".kind": "parser", ".get_model_from_str": pyeval.PyFn(lambda *a, **k: ev.append(("blueprint used directly",))), ".clone": pyeval.PyFn(lambda: (ev.append(("clone",)), HS({".kind": "parser clone", ".get_model_from_str": pyeval.PyFn(gmfs)}))[1])})
        me = HS({".kind": "metamodel", ".debug": False, "._parser_blueprint": blue, "._cached_model_ids": pyeval.PyFn(lambda: "snapshot"), "._call_model_processors": pyeval.PyFn(lambda m_, c_=None: ev.append(("processors", m_, c_)))})
        env0 = {"__classdefs__": cds, "__functions__": fns_s, "abspath": pyeval.PyFn(lambda p_: p_)}
        rp = None
        if repo:
            rp = pyeval.instantiate("GlobalModelRepository", [], {}, env0); me["._tx_model_repository"] = rp
            if cached is not None: rp[".all_models"][".filename_to_model"]["/abs/models/a.mdl"] = cached
        def open_(name, mode="r", encoding=None, **k):
            ev.append(("open", name, mode, encoding))
            return {".__enter__": pyeval.PyFn(lambda: {".read": pyeval.PyFn(lambda: FILE_TEXT)}), ".__exit__": pyeval.PyFn(lambda *a: ev.append(("close",)))}
        params = HS({".kind": "ModelParams"})
        env = {"__classdefs__": cds, "__functions__": dict(fns_s, **fns), "__module__": t, "self": me, "file_name": "models/a.mdl", "encoding": "latin-1", "debug": "DBG", "pre_ref_resolution_callback": user_cb, "is_main_model": main,
               "model_str": model_str, "model_params": params, "abspath": pyeval.PyFn(lambda p_: p_ if p_.startswith("/") else "/abs/" + p_), "open": pyeval.PyFn(open_), "os": pyeval.TRUSTED["os"],
               "GlobalModelRepository": pyeval.ClassRef("GlobalModelRepository"), "__keep__": ("abspath", "GlobalModelRepository")}
        try: return "ret", pyeval.run_block(fn.body, env), ev, model, params, rp
        except pyeval.Raised as r_: return "raise", r_.cls, ev, model, params, rp
        except pyeval.Unsupported as u_: raise AnalysisError("internal_model_from_file: outside the evaluated subset: %s" % u_)
    W = "TextXMetaModel.internal_model_from_file"
    def rep(what, ok, msg, props_=("C17", "C27", "C34", "C06", "C22")):
        nonlocal inst
        inst += 1
        for pr in props_:
            ob(pr, "C17.o", MM, W, what, ok)
            if not ok: out.append(Finding(pr, "C17.o", MM, W, what, msg))
    def steps(ev): return [(e[0],) + tuple(x_ for x_ in e[1:] if isinstance(x_, (str, bool, type(None)))) for e in ev]
    for what, given, main in (("the text is read from the file", None, True), ("the text is given by the caller", GIVEN, True), ("an imported file (not the main model)", None, False), ("the text given by the caller is empty", "", True)):
        k, v, ev, model, params, _rp = run(given, main=main)
        pr_ = [e for e in ev if e[0] == "parse"]; ucb = [e for e in ev if e[0] == "user callback"]; proc = [e for e in ev if e[0] == "processors"]; op = [e for e in ev if e[0] == "open"]
        text = given if given is not None else FILE_TEXT
        ok = (k == "ret" and v is model and len(pr_) == 1 and pr_[0][1:] == (text, "/abs/models/a.mdl", "DBG", "latin-1", main) and [e for e in ev if e[0] == "clone"] and not [e for e in ev if e[0] == "blueprint used directly"]
              and (op == [("open", "/abs/models/a.mdl", "r", "latin-1")] if given is None else not op) and len(ucb) == 1 and ucb[0][1] is model and ucb[0][2] is params and len(proc) == 1 and proc[0][1] is model and proc[0][2] == "snapshot" and ev.index(pr_[0]) < ev.index(proc[0]))
        rep(what, ok, "internal_model_from_file('models/a.mdl', 'latin-1', 'DBG', callback, is_main_model=%s, model_str=%s, parameters) %s after the steps %s; documented: %s, a clone of the parser blueprint parses exactly that text (line ends and blanks untouched: positions, line and column numbers refer to it) under the absolute file name with the debug flag, the encoding and is_main_model, the model gets the caller's parameters before the caller's callback runs, then the model processors run with the snapshot" % (main, "None" if given is None else "<text>", "returns the model" if k == "ret" and v is model else ("raises %s" % v if k == "raise" else "returns something else"), steps(ev), "the file is opened once with the caller's encoding" if given is None else "no file is opened"))
    # ---- with a global repository
    k, v, ev, model, params, rp = run(None, callback=False, repo=True)
    tab = rp[".all_models"][".filename_to_model"] if rp is not None else {}
    mrp = model.get("._tx_model_repository")
    ok = k == "ret" and v is model and tab.get("/abs/models/a.mdl") is model and isinstance(mrp, pyeval.Inst) and mrp is not rp and mrp.get(".all_models") is rp.get(".all_models") and mrp.get(".local_models") is not rp.get(".local_models") and model.get("._tx_model_params") is params
    rep("global repository, no caller's callback: the parsed model is registered", ok, "with a global repository and no callback the load %s; the repository's table holds %s, the model's own repository %s the table%s, its parameters are %s; documented: the model is registered under its file name in the table of all models, gets a repository OF ITS OWN (its own set of visible models) that shares that table, and the caller's parameters" % ("returns the model" if k == "ret" and v is model else ("raises %s" % v if k == "raise" else "returns something else"), sorted(tab), "shares" if isinstance(mrp, pyeval.Inst) and mrp.get(".all_models") is rp.get(".all_models") else "does not share", " (it IS the meta-model's repository: every main model sees what any other imported)" if mrp is rp else "", "the caller's" if model.get("._tx_model_params") is params else "not the caller's"), props_=("C17", "C27", "C10"))
    cases_c = [("a cached file", HS({".kind": "model", ".tag": "cached"}), dict(callback=False)), ("a cached file whose model object is falsy (user class defining __len__)", _Falsy({".kind": "model", ".tag": "cached falsy"}), dict(callback=False))]
    # the cache is consulted for every load: direct or nested, with or without a caller's callback, with or without a text given by the caller
    for main_ in (True, False):
        for cb_ in (True, False):
            for txt_ in (None, GIVEN): cases_c.append(("a cached file (is_main_model=%s, %s callback, %s)" % (main_, "with a" if cb_ else "no", "text given" if txt_ else "no text given"), HS({".kind": "model", ".tag": "cached"}), dict(callback=cb_, main=main_, model_str=txt_)))
    for what, cached, kw_ in cases_c:
        k, v, ev, model, params, rp = run(kw_.get("model_str"), callback=kw_.get("callback", False), repo=True, cached=cached, main=kw_.get("main", True))
        ok = k == "ret" and v is cached and not [e for e in ev if e[0] in ("parse", "open")] and rp[".all_models"][".filename_to_model"].get("/abs/models/a.mdl") is cached
        rep("global repository: %s is returned without parsing" % what, ok, "with a global repository that holds /abs/models/a.mdl (%s) the load %s after the steps %s; documented: that very model is returned, nothing is read or parsed" % (what, "returns the cached model" if k == "ret" and v is cached else ("raises %s" % v if k == "raise" else "returns another model"), steps(ev)), props_=("C17", "C16"))
    return inst, out

def r_validateuc(root):
    """C14.r  validate_user_classes decided by evaluation on a meta-model object built by interpreting __init__ with user
    classes: a user class that no rule of the grammar was bound to - also one named like a built-in base type (INT, ID, ...),
    which every namespace can look up - is refused with TextXSemanticError before any model is loaded; a meta-model whose
    user classes were all bound passes."""
    from sa import objmodel
    out = []; inst = 0
    W = "TextXMetaModel.validate_user_classes"
    def scenario(names, used):
        clss = [pyeval.ClassObj(n, {"__name__": n}) for n in names]
        me, base = objmodel.new_metamodel(root, classes=clss)
        uc = me.get(".user_classes")
        if not isinstance(uc, dict) or sorted(uc) != sorted(names): raise AnalysisError("TextXMetaModel.__init__: user_classes is %r for classes named %s" % (sorted(uc) if isinstance(uc, dict) else uc, names))
        if "._used_rule_names_for_user_classes" not in me: raise AnalysisError("TextXMetaModel.__init__: _used_rule_names_for_user_classes not set")
        for n in used:
            me["._used_rule_names_for_user_classes"].add(n)
            base["self._new_class"](n)                  # the rule of that name exists in the grammar's namespace
        k, v = objmodel.call_method(root, me, base, "validate_user_classes")
        return k, (v.cls if k == "raise" else v)
    for names, used, want, what in ((["Used"], ["Used"], "ret", "every user class was bound to a rule"), (["Used", "Orphan"], ["Used"], "TextXSemanticError", "a user class no rule is named like"),
                                    (["Used", "INT"], ["Used"], "TextXSemanticError", "a user class named like the built-in base type INT, which the grammar does not redefine"), (["ID"], [], "TextXSemanticError", "only a class named like the base type ID")):
        inst += 1
        k, v = scenario(names, used)
        ok = (k == "ret") if want == "ret" else (k == "raise" and v == want)
        for pr in ("C14", "C23"): ob(pr, "C14.r", MM, W, "classes %s, bound %s" % (names, used), ok)
        if not ok:
            for pr in ("C14", "C23"): out.append(Finding(pr, "C14.r", MM, W, "classes=%s" % names, "with the user classes %s of which %s were bound to rules (%s) validate_user_classes %s; documented: %s - an unbound class has no attribute storage, the first load would fail half-way through the instrumentation of the user classes" % (names, used, what, "passes" if k == "ret" else "raises %s" % v, "it passes" if want == "ret" else "TextXSemanticError '<name> class is not used in the grammar'"), witness="metamodel_from_str(grammar, classes=[Used, INT]) with class INT: pass"))
    return inst, out

def r_mmfromstr(root):
    """C25.l  metamodel_from_str decided by evaluation with recording stand-ins: without a meta-model one is created from the
    keyword arguments, the grammar is compiled into it under the given file name and the user classes are validated; with a
    meta-model given (a grammar imported by another grammar, a grammar extending a meta-model) that meta-model is used as it
    is - none of its options (ignore_case, skipws, ...) is written - and the user classes are not validated again."""
    from sa.exprs import HS
    out = []; inst = 0
    t = load(root, MM); fn = find(t, "metamodel_from_str"); ps = [a.arg for a in fn.args.args]
    if ps[:2] != ["lang_desc", "metamodel"] or not fn.args.kwarg: raise AnalysisError("metamodel_from_str: parameters %s" % ps)
    fns = {k: v for k, v in helper_functions(root, MM, "metamodel_from_str").items() if k not in ("metamodel_from_str", "metamodel_from_file")}
    W = "metamodel_from_str"
    def run(given, kwargs):
        ev = []
        def new_mm(**kw):
            m_ = HS({".kind": "metamodel", ".made_with": dict(kw), ".validate_user_classes": pyeval.PyFn(lambda: ev.append(("validate", "new")))}); ev.append(("create", dict(kw))); return m_
        env = {"__functions__": fns, "__module__": t, "lang_desc": "Model: 'x';", "metamodel": given, fn.args.kwarg.arg: dict(kwargs), "TextXMetaModel": pyeval.PyFn(new_mm),
               "language_from_str": pyeval.PyFn(lambda ld, mm_, fname=None: ev.append(("compile", ld, mm_, fname)))}
        for p_ in ps[2:]: raise AnalysisError("metamodel_from_str: unexpected parameter %s" % p_)
        try: return "ret", pyeval.run_block(fn.body, env), ev
        except pyeval.Raised as r_: return "raise", r_.cls, ev
        except pyeval.Unsupported as u_: raise AnalysisError("metamodel_from_str: outside the evaluated subset: %s" % u_)
    def rep(what, ok, msg, props_):
        nonlocal inst
        inst += 1
        for pr in props_:
            ob(pr, "C25.l", MM, W, what, ok)
            if not ok: out.append(Finding(pr, "C25.l", MM, W, what, msg))
    kw = {"ignore_case": True, "file_name": "g/main.tx", "skipws": False}
    k, v, ev = run(None, kw)
    cr = [e for e in ev if e[0] == "create"]; cp = [e for e in ev if e[0] == "compile"]
    ok = k == "ret" and len(cr) == 1 and cr[0][1] == kw and len(cp) == 1 and cp[0][1] == "Model: 'x';" and cp[0][2] is v and cp[0][3] == "g/main.tx" and ev[-1] == ("validate", "new") and isinstance(v, dict) and v.get(".made_with") == kw
    rep("no meta-model given", ok, "metamodel_from_str(grammar, ignore_case=True, file_name='g/main.tx', skipws=False) %s after %s; documented: one meta-model is created from exactly these keyword arguments, the grammar is compiled into it under that file name, the user classes are validated, that meta-model is returned" % ("returns" if k == "ret" else "raises %s" % v, [e[0] for e in ev]), ("C25", "C20", "C22"))
    for what, kw2 in (("a grammar imported into an existing meta-model", {"file_name": "g/lib.tx"}), ("an existing meta-model and options for this grammar only", {"file_name": "g/lib.tx", "ignore_case": False, "skipws": True})):
        given = HS({".kind": "metamodel", ".ignore_case": True, ".skipws": False, ".ws": " ", ".autokwd": True, ".file_name": "g/main.tx", ".validate_user_classes": pyeval.PyFn(lambda: ev.append(("validate", "given")))})
        before = {k_: v_ for k_, v_ in given.items()}
        k, v, ev = run(given, kw2)
        cp = [e for e in ev if e[0] == "compile"]
        same = set(given) == set(before) and all(given[k_] is before[k_] or given[k_] == before[k_] for k_ in before)
        ok = k == "ret" and v is given and not [e for e in ev if e[0] in ("create", "validate")] and len(cp) == 1 and cp[0][2] is given and cp[0][3] == "g/lib.tx" and same
        rep(what, ok, "metamodel_from_str(grammar, metamodel=<meta-model with ignore_case=True, skipws=False, autokwd=True>, %s) %s after %s; the meta-model's options afterwards: ignore_case=%r skipws=%r autokwd=%r; documented: the grammar is compiled into the given meta-model, which keeps every option it was created with (its other grammars were compiled under them) - no new meta-model, no second validation of the user classes" % (", ".join("%s=%r" % x_ for x_ in kw2.items()), "returns the given meta-model" if k == "ret" and v is given else ("raises %s" % v if k == "raise" else "returns another object"), [e[0] + (":" + e[1] if e[0] == "validate" else "") for e in ev], given.get(".ignore_case"), given.get(".skipws"), given.get(".autokwd")), ("C25", "C20", "C22", "C21"))
    return inst, out
