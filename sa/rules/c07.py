"""C07.a / C07.c  PlainName.__call__ decided by evaluation (sa/pyeval.py; nothing of textX runs).

The provider body (with whatever private helpers it calls, in whatever form the selector is written) is interpreted over
sample models.  get_children / get_model / textx_isinstance / get_parser are modelled stand-ins with their documented
meaning (get_children applies the selector the provider hands it to every sample object of the referencing model):

  multi_metamodel_support on  (the default provider)
     0 conforming objects of that name  -> None            (also: same name but a non-conforming class; another name)
     1                                  -> that object     (also when the object or its name is falsy: 0, '')
     >= 2                               -> TextXSemanticError
     the search covers the model that contains the referencing object (get_model(obj)), and nothing else
  multi_metamodel_support off (parser._instances lookup)
     common target class -> the instance of that class registered under the name; abstract target -> the first hit
     among the inheriting classes, depth-first, by None-test (a falsy found object is still returned)"""
import ast
from sa.util import *
from sa import pyeval
P = "textx/scoping/providers.py"
class _Falsy(dict):
    """sample object of a user class defining __len__ / __bool__: present but falsy"""
    def __bool__(s): return False
def r_C07eval(root):
    out = []; inst = 0
    t = load(root, P); fn = find(t, "PlainName.__call__")
    ps = [a.arg for a in fn.args.args]
    if len(ps) != 4: raise AnalysisError("PlainName.__call__: expected (self, obj, attr, obj_ref), got %s" % ps)
    fns = {k: v for k, v in helper_functions(root, P, "PlainName.__call__").items() if k not in ("__call__", "__init__")}
    cA = {".name": "A", ".kind": "cls", "._tx_type": "common"}; cA2 = {".name": "A2", ".kind": "cls", "._tx_type": "common"}; cB = {".name": "B", ".kind": "cls", "._tx_type": "common"}
    cAbs = {".name": "Abs", ".kind": "cls", "._tx_type": "abstract", "._tx_inh_by": [cA, cA2]}
    cTop = {".name": "Top", ".kind": "cls", "._tx_type": "abstract", "._tx_inh_by": [cB, cAbs]}
    conf = {("A", "A"), ("A2", "A2"), ("B", "B"), ("A", "Abs"), ("A2", "Abs"), ("A", "Top"), ("A2", "Top"), ("B", "Top")}
    XREF = {".name": "ObjCrossRef", ".kind": "cls"}
    def obj(cls, name, falsy=False, **kw):
        o = (_Falsy if falsy else dict)({".__class__": cls, ".kind": "obj"})
        if name is not None: o[".name"] = name
        for k, v in kw.items(): o["." + k] = v
        return o
    init = next((f for f in find(t, "PlainName").body if isinstance(f, ast.FunctionDef) and f.name == "__init__"), None)
    def new_self(mms):
        """the provider object as its constructor leaves it (the constructor is interpreted too)"""
        so = {".kind": "provider"}
        if init is None: so[".multi_metamodel_support"] = mms; return so
        ips = [a.arg for a in init.args.args]
        env = {"__functions__": fns, ips[0]: so}
        defaults = dict(zip(ips[len(ips) - len(init.args.defaults):], init.args.defaults))
        for k_, d_ in defaults.items(): env[k_] = pyeval.evaluate(d_, {})
        if "multi_metamodel_support" in ips: env["multi_metamodel_support"] = mms
        try: pyeval.run_block(init.body, env)
        except (pyeval.Unsupported, pyeval.Raised) as u_: raise AnalysisError("PlainName.__init__: outside the evaluated subset: %s" % u_)
        so.setdefault(".multi_metamodel_support", mms)
        return so
    def run(objs, ref_name, ref_cls, mms=True, other=(), self_obj=None, model=None):
        model = model if model is not None else {".kind": "model", ".__class__": {".name": "Model"}}
        for o in objs: o.setdefault(".parent", model)
        referencing = obj(cB, "referencing-object"); referencing[".parent"] = model
        foreign = {".kind": "model"}
        for o in other: o[".parent"] = foreign
        seen_roots = []
        def get_children(selector, root_obj, *a, **k):
            seen_roots.append(root_obj)
            pool = (list(objs) + [referencing]) if root_obj is model else list(other)
            return [o for o in pool if selector(o)]
        def get_model(o):
            while isinstance(o, dict) and ".parent" in o: o = o[".parent"]
            return o
        def txi(o, c): return isinstance(o, dict) and isinstance(c, dict) and (o.get(".__class__", {}).get(".name"), c.get(".name")) in conf
        inst_tab = {}
        for o in objs:
            if ".name" in o: inst_tab.setdefault(id(o[".__class__"]), {}).setdefault(o[".name"], o)
        parser = {".debug": False, ".dprint": pyeval.PyFn(lambda *a: None), "._instances": inst_tab}
        ref = {".__class__": XREF, ".obj_name": ref_name, ".cls": ref_cls, ".position": 5}
        env = {"__functions__": fns, ps[0]: self_obj if self_obj is not None else new_self(mms), ps[1]: referencing, ps[2]: {".name": "ref"}, ps[3]: ref,
               "get_children": pyeval.PyFn(get_children), "get_model": pyeval.PyFn(get_model), "textx_isinstance": pyeval.PyFn(txi), "get_parser": pyeval.PyFn(lambda o: parser),
               "ObjCrossRef": XREF, "RULE_ABSTRACT": "abstract", "RULE_COMMON": "common", "RULE_MATCH": "match", "TextXSemanticError": pyeval.PyFn(lambda *a, **k: {".exc": "TextXSemanticError"})}
        try: k, v = "ret", pyeval.run_block(fn.body, env)
        except pyeval.Raised as r_: k, v = "raise", r_.cls
        except pyeval.Unsupported as u_: raise AnalysisError("PlainName.__call__: outside the evaluated subset: %s" % u_)
        return k, v, seen_roots, model
    def verdict(k, v, want):
        if want == "raise": return k == "raise" and "TextXSemanticError" in str(v)
        return k == "ret" and v is want
    def show(k, v, objs):
        if k == "raise": return "raises %s" % v
        if v is None: return "None"
        return "the %s object named %r" % (v.get(".__class__", {}).get(".name"), v.get(".name")) if isinstance(v, dict) and v.get(".kind") == "obj" else repr(v)[:60]
    # ---- multi_metamodel_support on
    a_x = obj(cA, "x"); b_x = obj(cB, "x"); a_y = obj(cA, "y"); a2_x = obj(cA2, "x"); a_0 = obj(cA, 0); a_e = obj(cA, ""); a_f = obj(cA, "f", falsy=True); unnamed = obj(cA, None)
    cases = [
        ("C07.a", "no object of that name", [a_y, b_x, unnamed], "zz", cA, None),
        ("C07.a", "same name, non-conforming class only", [b_x, a_y, unnamed], "x", cA, None),
        ("C07.a", "one conforming object among same-named objects of unrelated classes", [b_x, a_x, a_y, unnamed], "x", cA, a_x),
        ("C07.a", "abstract target, one conforming object", [a_y, b_x, unnamed], "y", cAbs, a_y),
        ("C07.a", "two conforming objects of that name", [a_x, a2_x, b_x], "x", cAbs, "raise"),
        ("C07.a", "two conforming objects of the same class", [a_x, obj(cA, "x"), a_y], "x", cA, "raise"),
        ("C07.c", "the object's name is 0", [a_0, a_y], 0, cA, a_0),
        ("C07.c", "the object's name is the empty string", [a_e, a_y], "", cA, a_e),
        ("C07.c", "the matching object is falsy (user class defining __len__/__bool__)", [a_f, a_y], "f", cA, a_f),
    ]
    for clause, what, objs, rn, rc, want in cases:
        inst += 1
        k, v, roots, model = run([dict(o) if not isinstance(o, _Falsy) else o for o in objs] if False else objs, rn, rc)
        okc = verdict(k, v, want)
        ob("C07", clause, P, "PlainName.__call__", what, okc)
        if not okc:
            out.append(Finding("C07", clause, P, "PlainName.__call__", what, "with %s the default provider %s; documented: %s" % (what, show(k, v, objs), "a 'not unique' TextXSemanticError" if want == "raise" else ("None (the resolver then tries the builtins / reports 'Unknown object')" if want is None else "that object")), witness="reference %r" % (rn,)))
    # one provider object serves every reference of a model: each call gets its own answer
    inst += 1
    so = new_self(True); mdl = {".kind": "model", ".__class__": {".name": "Model"}}; objs2 = [a_x, b_x, a_y]
    for o in objs2: o[".parent"] = mdl
    seq = [("x", cA, a_x), ("x", cB, b_x), ("y", cB, None), ("y", cA, a_y), ("x", cA, a_x)]
    bad_seq = None
    for i_, (rn, rc, want) in enumerate(seq):
        k, v, roots, _m = run(objs2, rn, rc, self_obj=so, model=mdl)
        if not verdict(k, v, want) and bad_seq is None: bad_seq = (i_, rn, rc, k, v, want)
    ob("C07", "C07.a", P, "PlainName.__call__", "five references resolved one after the other by the same provider object", bad_seq is None)
    if bad_seq:
        i_, rn, rc, k, v, want = bad_seq
        out.append(Finding("C07", "C07.a", P, "PlainName.__call__", "reference %d of a sequence: %r as %s" % (i_ + 1, rn, rc[".name"]), "after earlier references were resolved by the same provider object, the reference to %r of type %s %s; documented: %s (the answer must not depend on what was resolved before)" % (rn, rc[".name"], show(k, v, objs2), "None" if want is None else "the %s object of that name" % want[".__class__"][".name"]), witness="two references to the same name with different target rules"))
    # the search covers the referencing model only
    inst += 1
    far = obj(cA, "far")
    k, v, roots, model = run([a_y], "far", cA, other=[far])
    okr = k == "ret" and v is None and all(r is model for r in roots) and bool(roots)
    ob("C07", "C07.a", P, "PlainName.__call__", "search root is the model that contains the referencing object", okr)
    if not okr: out.append(Finding("C07", "C07.a", P, "PlainName.__call__", "search root", "the default provider searches %s: an object of another model is found, or the referencing model is not searched" % ("another tree than get_model(obj)" if roots else "no model at all")))
    # ---- multi_metamodel_support off: parser._instances
    i_a = obj(cA, "n"); i_a2 = obj(cA2, "n"); i_b = obj(cB, "n"); i_f = obj(cA, "g", falsy=True); i_g2 = obj(cA2, "g")
    for what, objs, rn, rc, want in (("common target class", [i_a, i_b], "n", cA, i_a), ("common target class, no such name", [i_a, i_b], "m", cA, None),
                                     ("abstract target: first inheriting class that has the name", [i_a2, i_b], "n", cAbs, i_a2), ("abstract target nested in an abstract target", [i_a2], "n", cTop, i_a2),
                                     ("abstract target: the first hit is a falsy object", [i_f, i_g2], "g", cAbs, i_f)):
        inst += 1
        k, v, roots, model = run(objs, rn, rc, mms=False)
        okc = verdict(k, v, want)
        ob("C07", "C07.c", P, "PlainName.__call__._inner_resolve_link_rule_ref", what, okc)
        if not okc: out.append(Finding("C07", "C07.c", P, "PlainName.__call__._inner_resolve_link_rule_ref", what, "without multi_metamodel_support, %s: the provider %s; documented: %s" % (what, show(k, v, objs), "None" if want is None else "the registered instance (found objects are returned by None-test, also when falsy)")))
    return inst, out
