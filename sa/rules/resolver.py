"""Role model of the reference resolver (name-independent): which local plays which part in
ReferenceResolver.resolve_one_step and in the driver loop of parse_tree_to_objgraph.  Derived from dataflow facts, so
that renaming locals or extracting helpers (inlined first, sa/inline.py) does not disturb the rules."""
import ast
from sa.util import *
from sa import sem
M = "textx/model.py"
class Roles: pass
def roles(root):
    R = Roles()
    fn = find_i(root, M, "ReferenceResolver.resolve_one_step"); R.fn = fn
    loop = None
    for n in fn.body:
        if isinstance(n, ast.For) and isinstance(n.target, (ast.Tuple, ast.List)) and len(n.target.elts) == 3 and all(isinstance(e, ast.Name) for e in n.target.elts):
            names = [e.id for e in n.target.elts]
            def _hands_over(c):
                a_ = [ast.unparse(x) for x in c.args]
                return any(a_[i:i + 3] == names for i in range(len(a_) - 2))      # (obj, attr, crossref) handed on, directly to a provider or to a helper that picks one
            if any(isinstance(c, ast.Call) and _hands_over(c) for c in ast.walk(n)): loop = n; break
    if loop is None: raise AnalysisError("resolver loop not found (a loop over (obj, attr, crossref) triples that hands them to a scope provider)")
    R.loop = loop; R.v_obj, R.v_attr, R.v_ref = [e.id for e in loop.target.elts]
    R.work = ast.unparse(loop.iter)
    after = fn.body[fn.body.index(loop) + 1:]
    R.requeue = None
    for s in after:
        if isinstance(s, ast.Assign) and any(ast.unparse(tg).endswith("._crossrefs") for tg in s.targets) and isinstance(s.value, ast.Name): R.requeue = s.value.id
    ret = next((s for s in reversed(fn.body) if isinstance(s, ast.Return) and isinstance(s.value, ast.Tuple) and len(s.value.elts) == 2), None)
    R.count = ret.value.elts[0].id if ret is not None and isinstance(ret.value.elts[0], ast.Name) else None
    R.store_list = None
    for s in ast.walk(loop):
        if isinstance(s, ast.Assign) and isinstance(s.targets[0], ast.Name) and isinstance(s.value, ast.Call) and callee_name(s.value) == "getattr" and [ast.unparse(a) for a in s.value.args] == [R.v_obj, R.v_attr + ".name"]: R.store_list = s.targets[0].id
    return R
def effects(row, R):
    eff = {"requeue": 0, "count": 0, "store": 0, "delayed": 0}
    for e in row.effects:
        if isinstance(e, ast.Expr) and isinstance(e.value, ast.Call):
            c = e.value; recv = ast.unparse(c.func.value) if isinstance(c.func, ast.Attribute) else ""
            if callee_name(c) == "append" and recv == R.requeue: eff["requeue"] += 1
            elif callee_name(c) == "append" and recv.endswith("delayed_crossrefs"): eff["delayed"] += 1
            elif callee_name(c) in ("append", "insert", "extend") and recv == R.store_list: eff["store"] += 1
            elif callee_name(c) == "setattr" and len(c.args) == 3 and ast.unparse(c.args[0]) == R.v_obj and ast.unparse(c.args[1]) == R.v_attr + ".name": eff["store"] += 1
        if isinstance(e, ast.AugAssign) and ast.unparse(e.target) == R.count: eff["count"] += 1
    return eff
def driver(root):
    """roles of the driver loop: (drv function (inlined), while loop, resolved-counter name, unresolved-counter name, loop over the models inside the while)"""
    drv = find_i(root, M, "parse_tree_to_objgraph")
    wl = next((n for n in ast.walk(drv) if isinstance(n, ast.While) and any(callee_name(c) == "resolve_one_step" for c in calls(n))), None)
    if wl is None: raise AnalysisError("resolution driver loop not found")
    fi_ = sem.info(drv)
    def _is_step(v, at):
        x = fi_.expand(v, at=at)
        return isinstance(x, ast.Call) and callee_name(x) == "resolve_one_step"
    un = next((s for s in ast.walk(wl) if isinstance(s, ast.Assign) and isinstance(s.targets[0], (ast.Tuple, ast.List)) and len(s.targets[0].elts) == 2 and _is_step(s.value, s)), None)
    if un is not None: a, b = [ast.unparse(e) for e in un.targets[0].elts]
    else:
        # the pair kept in one variable and taken apart by index: r = ...resolve_one_step(); ... += r[0]; ... += len(r[1])
        tmp = next((s for s in ast.walk(wl) if isinstance(s, ast.Assign) and len(s.targets) == 1 and isinstance(s.targets[0], ast.Name) and _is_step(s.value, s)), None)
        if tmp is None: raise AnalysisError("driver loop does not take (count, delayed) from resolve_one_step")
        a, b = "%s[0]" % tmp.targets[0].id, "%s[1]" % tmp.targets[0].id
    rc = uc = None
    for s in ast.walk(wl):
        if isinstance(s, ast.AugAssign) and isinstance(s.op, ast.Add):
            v = ast.unparse(s.value).replace(" ", "")
            if v == a: rc = ast.unparse(s.target)
            if v == "len(%s)" % b: uc = ast.unparse(s.target)
    if rc is None or uc is None: raise AnalysisError("driver loop counters not found (resolved += count, unresolved += len(delayed))")
    ml = next((n for n in wl.body if isinstance(n, ast.For) and any(callee_name(c) == "resolve_one_step" for c in calls(n))), None)
    return drv, wl, rc, uc, ml

def unresolved_raises(root):
    """(driver function (inlined), the `if unresolved > 0:` statement after the driver loop, the raise statements in it)"""
    drv, wl, rc, uc, ml = driver(root)
    after = next_stmt(wl)
    if not (isinstance(after, ast.If) and ast.unparse(after.test).replace(" ", "") == "%s>0" % uc): raise AnalysisError("no failure branch after the resolution loop (if %s > 0)" % uc)
    rs = [r for r in ast.walk(after) if isinstance(r, ast.Raise) and r.exc is not None]
    if not rs: raise AnalysisError("the failure branch after the resolution loop raises nothing")
    return drv, after, rs

def continue_atoms(drv, wl):
    """canonical conjuncts that must hold for the driver loop to go on: from the while test and from the negated guards of
    its breaks.  Counter comparisons are normalised to `x>0` (x <= 0, x == 0, not x  ->  not x>0)."""
    fi_ = sem.info(drv)
    def nnf(e, neg=False):
        if isinstance(e, ast.UnaryOp) and isinstance(e.op, ast.Not): return nnf(e.operand, not neg)
        if isinstance(e, ast.BoolOp):
            parts = [nnf(v, neg) for v in e.values]
            is_and = isinstance(e.op, ast.And) != neg
            return ("and" if is_and else "or", parts)
        if isinstance(e, ast.Constant): return ("const", bool(e.value) != neg)
        if isinstance(e, ast.Compare) and len(e.ops) == 1 and isinstance(e.comparators[0], ast.Constant) and e.comparators[0].value == 0:
            x = ast.unparse(e.left).replace(" ", ""); op = type(e.ops[0])
            pos = {ast.Gt: True, ast.NotEq: True, ast.LtE: False, ast.Eq: False}.get(op)
            if pos is not None: return ("atom", x + ">0", pos != neg)
        if isinstance(e, ast.Name): return ("atom", e.id + ">0", not neg)
        return ("atom", ast.unparse(e).replace(" ", ""), not neg)
    def conj(t):
        if t[0] == "and":
            out = set()
            for p in t[1]: out |= conj(p)
            return out
        if t[0] == "atom" and t[2]: return {t[1]}
        return set()
    need = conj(nnf(wl.test))
    for b in [n for n in ast.walk(wl) if isinstance(n, ast.Break) and next((a for a in ancestors(n) if isinstance(a, (ast.While, ast.For))), None) is wl]:
        gs = [(g, pol) for g, pol in fi_.guards(b) if any(a is wl for a in ancestors(g))]
        if not gs: continue
        e = None
        parts = [g if pol else ast.UnaryOp(op=ast.Not(), operand=g) for g, pol in gs]
        e = parts[0] if len(parts) == 1 else ast.BoolOp(op=ast.And(), values=parts)
        need |= conj(nnf(e, neg=True))          # the loop goes on only where the break's condition is false
    return need
