"""C04.a  STRING: writer/reader agreement between the STRING regex (lang.py) and the STRING converter (metamodel.py).

Documented semantics (docs/src/grammar.md, textx base types): a string is delimited by ' or "; inside it only
backslash + the delimiter is an escape (for the delimiter); the value is the text between the delimiters with
that escape removed; a backslash in front of anything else is an ordinary character.

Decided here, from the two ASTs only:
  (1) regex structure: two branches, one per delimiter q, each  q ( \\q | [^q] )* q  — the only escape alternative is
      backslash+q and the character class excludes exactly q;
  (2) the converter expression, evaluated by this module's own evaluator (a whitelisted str-expression subset: slicing,
      indexing, replace/strip, ==, conditional expression) on EVERY word of the regex's language up to length 6 over
      the alphabet {a, backslash, ', "} (enumerated from the regex automaton, sa/rx.py), equals the documented value.
      The language words are exactly the texts the STRING rule can hand to the converter, so this is exhaustive up to
      that length.  Nothing from textX is imported or run."""
import ast, itertools
import re._parser as sre, re._constants as sc
from sa.util import *
from sa import rx, sem
L = "textx/lang.py"; MM = "textx/metamodel.py"
from sa.pyeval import evaluate as _eval, Unsupported as _Unsup
def _converter(mm_tree, lang_tree):
    """(param name, body expr | list of statements) of the STRING entry of _default_obj_processors"""
    init = find(mm_tree, "TextXMetaModel.__init__"); procs = None
    for n in ast.walk(init):
        if isinstance(n, ast.Assign) and ast.unparse(n.targets[0]) == "self._default_obj_processors" and dict_literal_of(n.value, mm_tree) is not None:
            d_ = dict_literal_of(n.value, mm_tree)
            procs = {k.value: v for k, v in zip(d_.keys, d_.values) if isinstance(k, ast.Constant)}
    if procs is None or "STRING" not in procs: raise AnalysisError("STRING entry of _default_obj_processors not found")
    v = procs["STRING"]
    if isinstance(v, ast.Lambda): return v.args.args[0].arg, v.body, ast.unparse(v)
    if isinstance(v, ast.Name):
        for scope in (init, mm_tree):
            for n in ast.walk(scope):
                if isinstance(n, ast.FunctionDef) and n.name == v.id and n.args.args: return n.args.args[-1].arg, n.body, "def " + n.name
    raise AnalysisError("STRING converter is neither a lambda nor a local function: " + ast.unparse(v)[:60])
def _run(body, param, x):
    if isinstance(body, ast.expr): return _eval(body, {param: x})
    env = {param: x}
    def block(stmts):
        for s in stmts:
            if isinstance(s, ast.Return): return ("ret", _eval(s.value, env))
            if isinstance(s, ast.Assign) and len(s.targets) == 1 and isinstance(s.targets[0], ast.Name): env[s.targets[0].id] = _eval(s.value, env)
            elif isinstance(s, ast.If):
                r = block(s.body if _eval(s.test, env) else s.orelse)
                if r is not None: return r
            elif isinstance(s, ast.Expr) and isinstance(s.value, ast.Constant): continue
            else: raise _Unsup("statement outside the supported subset in the STRING converter: " + ast.unparse(s)[:60])
        return None
    r = block(body)
    if r is None: raise _Unsup("STRING converter falls off its end")
    return r[1]
def _spec(x):
    q = x[0]
    return x[1:-1].replace("\\" + q, q)
def r_C04a(root):
    out = []; inst = 0
    lang = load(root, L); mm = load(root, MM)
    rxsrc = None
    for n in lang.body:
        if isinstance(n, ast.Assign) and isinstance(n.targets[0], ast.Name) and n.targets[0].id == "STRING" and isinstance(n.value, ast.Call) and n.value.args: rxsrc = const_str(n.value.args[0], lang)
    if rxsrc is None: raise AnalysisError("STRING regex not found in lang.py")
    # (1) structure
    try: p = sre.parse(rxsrc)
    except Exception as e: raise AnalysisError("STRING regex does not parse: %s" % e)
    items = list(p)
    branches = items[0][1][1] if len(items) == 1 and items[0][0] is sc.BRANCH else None
    if branches is None or len(branches) != 2:
        out.append(Finding("C04", "C04.a", L, "STRING", rxsrc, "STRING regex is not an alternation of a double-quoted and a single-quoted branch")); branches = []
    def unwrap(its):
        its = list(its)
        while len(its) == 1 and its[0][0] is sc.SUBPATTERN: its = list(its[0][1][3])
        return its
    seen_q = set()
    for b in branches:
        its = unwrap(b); inst += 1; okb = True
        def bad(msg):
            nonlocal okb; okb = False
            out.append(Finding("C04", "C04.a", L, "STRING", rxsrc, msg, witness='a string such as "a\\\\"b" or "a\\\\\'b"'))
        if len(its) != 3 or its[0][0] is not sc.LITERAL or its[2] != its[0] or its[1][0] not in (sc.MAX_REPEAT, sc.MIN_REPEAT):
            bad("a STRING branch is not  q ( ... )* q"); continue
        q = chr(its[0][1]); seen_q.add(q)
        lo, hi, body = its[1][1]
        if lo != 0 or hi is not sc.MAXREPEAT: bad("the body of a %s-delimited string is not repeated zero or more times" % q)
        body = unwrap(body)
        alts = [unwrap(a) for a in body[0][1][1]] if len(body) == 1 and body[0][0] is sc.BRANCH else [body]
        esc, cls = [], []
        for a in alts:
            if len(a) == 2 and a[0] == (sc.LITERAL, 92): esc.append(a[1])
            elif len(a) == 1: cls.append(a[0])
            else: bad("unsupported alternative inside a %s-delimited string" % q)
        if [e for e in esc] != [(sc.LITERAL, ord(q))]:
            bad("inside %s…%s the regex treats %s as escape sequences; documented: only backslash+%s" % (q, q, ["backslash+" + (chr(e[1]) if e[0] is sc.LITERAL else "any character") for e in esc] or "nothing", q))
        okcls = len(cls) == 1 and (cls[0] == (sc.NOT_LITERAL, ord(q)) or (cls[0][0] is sc.IN and list(cls[0][1]) == [(sc.NEGATE, None), (sc.LITERAL, ord(q))]))
        if not okcls: bad("inside %s…%s the ordinary-character class is not 'anything but %s' (a backslash in front of another character must stay an ordinary character)" % (q, q, q))
        ob("C04", "C04.a", L, "STRING", "regex branch for delimiter %s" % q, okb)
    if branches and seen_q != {"'", '"'}: out.append(Finding("C04", "C04.a", L, "STRING", rxsrc, "STRING delimiters are %s, documented ' and \"" % sorted(seen_q)))
    # (2) converter == documented unescape on every word of the regex language up to length 6
    # the converter as the meta-model really installs it: TextXMetaModel.__init__ is interpreted (sa/objmodel.py) and the text is sent
    # through TextXMetaModel.process(text, 'STRING', ...), whatever form the converter has (lambda, local def, method, table entry)
    from sa import objmodel
    me_, base_ = objmodel.new_metamodel(root); label = "TextXMetaModel.process(text, 'STRING')"
    def _conv(w):
        k_, v_ = objmodel.call_method(root, me_, base_, "process", w, "STRING", "f", 1, 1)
        return v_ if k_ == "ret" else "<%s>" % v_.cls
    try: nfa = rx.Nfa(rxsrc)
    except rx.Unsupported as e: raise AnalysisError("STRING regex outside the automaton subset: %s" % e)
    SIG = ["a", "\\", "'", '"']
    words = []
    frontier = [("", nfa.closure({nfa.start}))]
    for _ in range(6):
        nxt = []
        for w, S in frontier:
            for ch in SIG:
                T = nfa.step(S, ch)
                if not T: continue
                nxt.append((w + ch, T))
                if nfa.accept in T: words.append(w + ch)
        frontier = nxt
    if len(words) < 50: raise AnalysisError("STRING regex language has only %d words up to length 6" % len(words))
    badw = []
    for w in words:
        got = _conv(w)
        if got != _spec(w): badw.append((w, got, _spec(w)))
    inst += 1
    ob("C04", "C04.a", MM, "TextXMetaModel.__init__", "STRING converter %s evaluated on %d words of the STRING language (exhaustive to length 6 over {a,\\,',\"}): %d disagree with the documented unescape" % (label[:40], len(words), len(badw)), not badw)
    STATS.counters["table_rows"] += len(words)
    if badw:
        w, got, exp = min(badw, key=lambda t: len(t[0]))
        out.append(Finding("C04", "C04.a", MM, "TextXMetaModel.__init__", "STRING converter: " + " ".join(label.split())[:120], "for the matched text %s the converter yields %r, documented value %r (%d of %d enumerated matches disagree)" % (w, got, exp, len(badw), len(words)), witness=w))
    return inst, out

# ---------------------------------------------------------------------------------------------------------------
PY_INT = r"-?[0-9]+"                                                              # str(int)
PY_FLOAT = r"-?(?:[0-9]+\.[0-9]+(?:e[+-][0-9]+)?|[0-9]+e[+-][0-9]+)"             # repr(float) of a finite float
WRITTEN_FLOAT = r"[-+]?(?:(?:[0-9]+\.[0-9]*|\.[0-9]+)(?:[eE][-+]?[0-9]+)?|[0-9]+[eE][-+]?[0-9]+)"
def r_C04num(root):
    """C04.d  the numeric base-type regexes against the *writer* they must accept (Python's own int/float printing):
       L(str(int)) within L(INT);  L(repr(finite float)) within L(FLOAT) and within L(STRICTFLOAT)  (core languages: the
       zero-width context assertions at the end of the patterns are set aside and must be the same two for both float
       patterns);  no digit-only prefix is in L(STRICTFLOAT) (else NUMBER = STRICTFLOAT | INT takes part of an int).
       Decided by product construction on the regex automata (sa/rx.py); nothing is matched at run time."""
    out = []; inst = 0
    lang = load(root, L); regs = {}
    for n in lang.body:
        if isinstance(n, ast.Assign) and isinstance(n.value, ast.Call) and getattr(n.value.func, "id", None) in ("_", "RegExMatch") and isinstance(n.targets[0], ast.Name):
            regs[n.targets[0].id] = const_str(n.value.args[0], lang)
    for k in ("INT", "FLOAT", "STRICTFLOAT"):
        if regs.get(k) is None: raise AnalysisError("regex of base type %s not found as a constant string" % k)
    nf = {k: rx.Nfa(regs[k], drop_trailing_assertions=True) for k in ("INT", "FLOAT", "STRICTFLOAT")}
    def need(sub_pat, sub_name, k):
        nonlocal inst
        inst += 1
        ok, w = rx.included_nfa(rx.Nfa(sub_pat), nf[k])
        ob("C04", "C04.d", L, k, "%s within L(%s)" % (sub_name, k), ok)
        if not ok: out.append(Finding("C04", "C04.d", L, k, regs[k][:90], "%s is not accepted by %s: %r is printed by Python but not in the language of the pattern" % (sub_name, k, w), witness="value %s" % w))
    need(PY_INT, "str(int)", "INT"); need(PY_FLOAT, "repr(float)", "FLOAT"); need(PY_FLOAT, "repr(float)", "STRICTFLOAT")
    # "any finite float written with a '.' or an exponent": every such spelling, not only Python's own
    need(WRITTEN_FLOAT, "a float written with '.' or exponent", "FLOAT"); need(WRITTEN_FLOAT, "a float written with '.' or exponent", "STRICTFLOAT")
    need(r"[-+]?[0-9]+", "a signed decimal integer", "INT")
    # C04.f  use_regexp_group (C01.g) takes group 1 as the value when the pattern has exactly one group: a base-type pattern
    #        must not have exactly one capturing group unless that group spans everything the pattern consumes
    for k in sorted(regs):
        if regs[k] is None: continue
        try: tree = sre.parse(regs[k])
        except Exception: continue
        if tree.state.groups - 1 != 1: continue
        inst += 1
        items = [it for it in tree if not (it[0] in (sc.AT, sc.ASSERT, sc.ASSERT_NOT))]
        whole = len(items) == 1 and items[0][0] is sc.SUBPATTERN and items[0][1][0] == 1
        ob("C04", "C04.f", L, k, "single capturing group of %s spans the whole match" % k, whole)
        if not whole: out.append(Finding("C04", "C04.f", L, k, regs[k][:90], "the pattern of %s has exactly one capturing group that does not span the whole match: with use_regexp_group=True the converted text is only that group (a sign / prefix outside the group is dropped)" % k, witness="use_regexp_group=True and a value with the part outside the group, e.g. -7"))
    inst += 1
    w = rx.common_word(rx.Nfa(r"[-+]?[0-9]*"), nf["STRICTFLOAT"])
    ob("C04", "C04.d", L, "STRICTFLOAT", "no sign/digit-only word in L(STRICTFLOAT)", w is None)
    if w is not None: out.append(Finding("C04", "C04.d", L, "STRICTFLOAT", regs["STRICTFLOAT"][:90], "STRICTFLOAT accepts %r, which has neither '.' nor exponent: NUMBER (STRICTFLOAT before INT) turns integers into floats" % w, witness=w))
    inst += 1
    same = nf["FLOAT"].dropped == nf["STRICTFLOAT"].dropped
    ob("C04", "C04.d", L, "FLOAT/STRICTFLOAT", "same trailing context assertions", same)
    if not same: out.append(Finding("C04", "C04.d", L, "STRICTFLOAT", regs["STRICTFLOAT"][-40:], "FLOAT and STRICTFLOAT end in different context assertions: the same number text is delimited differently by the two rules"))
    return inst, out
MUTATORS = {"update", "pop", "popitem", "clear", "setdefault", "__setitem__", "__delitem__", "append", "extend", "insert", "remove"}
def r_C04defaults(root):
    """C04.e  the table of built-in conversions (self._default_obj_processors) is written only while it is built in
       __init__: no other method mutates it, directly or through a local alias, and no other attribute is bound to the
       table itself (only to a copy) — otherwise a user registration for a base type replaces the built-in conversion
       for good and a later registration without that key does not bring it back."""
    out = []; inst = 0
    t = load(root, MM); cls = find(t, "TextXMetaModel")
    for fn in [f for f in cls.body if isinstance(f, ast.FunctionDef) and f.name != "__init__"]:
        fi = None
        def is_table(e, at):
            nonlocal fi
            fi = fi or sem.info(fn)
            x = fi.expand(e, at=at)
            return isinstance(x, ast.Attribute) and x.attr.startswith("_default_") and isinstance(x.value, ast.Name) and x.value.id == "self"
        for n in own_nodes(fn):
            bad = None
            if isinstance(n, ast.Call) and isinstance(n.func, ast.Attribute) and n.func.attr in MUTATORS and isinstance(n.func.value, (ast.Name, ast.Attribute)) and is_table(n.func.value, n): bad = "the built-in table is mutated through %s" % ast.unparse(n.func.value)
            elif isinstance(n, (ast.Assign, ast.AugAssign, ast.Delete)):
                tgs = n.targets if isinstance(n, (ast.Assign, ast.Delete)) else [n.target]
                for tg in tgs:
                    if isinstance(tg, ast.Subscript) and isinstance(tg.value, (ast.Name, ast.Attribute)) and is_table(tg.value, n): bad = "an entry of the built-in table is overwritten"
                    elif isinstance(tg, ast.Attribute) and isinstance(n, ast.Assign) and isinstance(n.value, (ast.Name, ast.Attribute)) and is_table(n.value, n) and not tg.attr.startswith("_default_"): bad = "self.%s is bound to the built-in table itself, not to a copy" % tg.attr
            if bad:
                inst += 1
                out.append(Finding("C04", "C04.e", MM, "TextXMetaModel." + fn.name, " ".join(ast.unparse(n).split())[:100], bad + ": a processor registered for INT/FLOAT/BOOL/STRING replaces the default conversion permanently", witness="register_obj_processors({'INT': f}) then register_obj_processors({}) on the same metamodel"))
    reads = [n for n in ast.walk(cls) if isinstance(n, ast.Attribute) and n.attr.startswith("_default_")]
    inst += len(reads)
    if not reads: raise AnalysisError("no _default_* table found in TextXMetaModel")
    ob("C04", "C04.e", MM, "TextXMetaModel", "%d uses of the built-in tables outside __init__ are reads or copies" % len(reads), not out)
    return inst, out
