"""C04.a  STRING: writer/reader agreement between the STRING regex (lang.py) and the STRING converter (metamodel.py).

Documented semantics (docs/src/grammar.md, textx base types): a string is delimited by ' or "; inside it only
backslash + the delimiter is an escape (for the delimiter); the value is the text between the delimiters with
that escape removed; a backslash in front of anything else is an ordinary character.

Decided here, from the two ASTs only:
  (1) regex structure: two branches, one per delimiter q, each  q ( \\q | [^q] )* q  — the only escape alternative is
      backslash+q and the character class excludes exactly q;
  (2) the converter expression, evaluated by this module's own evaluator (a whitelisted str-expression subset: slicing,
      indexing, replace/strip, ==, conditional expression) on EVERY word of the regex's language up to length 6 over
      the alphabet {a, backslash, ', "} (enumerated from the regex automaton, sa/rx.py), equals the documented value.
      The language words are exactly the texts the STRING rule can hand to the converter, so this is exhaustive up to
      that length.  Nothing from textX is imported or run."""
import ast, itertools
import re._parser as sre, re._constants as sc
from sa.util import *
from sa import rx
L = "textx/lang.py"; MM = "textx/metamodel.py"
from sa.pyeval import evaluate as _eval, Unsupported as _Unsup
def _converter(mm_tree, lang_tree):
    """(param name, body expr | list of statements) of the STRING entry of _default_obj_processors"""
    init = find(mm_tree, "TextXMetaModel.__init__"); procs = None
    for n in ast.walk(init):
        if isinstance(n, ast.Assign) and ast.unparse(n.targets[0]) == "self._default_obj_processors" and isinstance(n.value, ast.Dict):
            procs = {k.value: v for k, v in zip(n.value.keys, n.value.values) if isinstance(k, ast.Constant)}
    if procs is None or "STRING" not in procs: raise AnalysisError("STRING entry of _default_obj_processors not found")
    v = procs["STRING"]
    if isinstance(v, ast.Lambda): return v.args.args[0].arg, v.body, ast.unparse(v)
    if isinstance(v, ast.Name):
        for scope in (init, mm_tree):
            for n in ast.walk(scope):
                if isinstance(n, ast.FunctionDef) and n.name == v.id and n.args.args: return n.args.args[-1].arg, n.body, "def " + n.name
    raise AnalysisError("STRING converter is neither a lambda nor a local function: " + ast.unparse(v)[:60])
def _run(body, param, x):
    if isinstance(body, ast.expr): return _eval(body, {param: x})
    env = {param: x}
    def block(stmts):
        for s in stmts:
            if isinstance(s, ast.Return): return ("ret", _eval(s.value, env))
            if isinstance(s, ast.Assign) and len(s.targets) == 1 and isinstance(s.targets[0], ast.Name): env[s.targets[0].id] = _eval(s.value, env)
            elif isinstance(s, ast.If):
                r = block(s.body if _eval(s.test, env) else s.orelse)
                if r is not None: return r
            elif isinstance(s, ast.Expr) and isinstance(s.value, ast.Constant): continue
            else: raise _Unsup("statement outside the supported subset in the STRING converter: " + ast.unparse(s)[:60])
        return None
    r = block(body)
    if r is None: raise _Unsup("STRING converter falls off its end")
    return r[1]
def _spec(x):
    q = x[0]
    return x[1:-1].replace("\\" + q, q)
def r_C04a(root):
    out = []; inst = 0
    lang = load(root, L); mm = load(root, MM)
    rxsrc = None
    for n in lang.body:
        if isinstance(n, ast.Assign) and isinstance(n.targets[0], ast.Name) and n.targets[0].id == "STRING" and isinstance(n.value, ast.Call) and n.value.args: rxsrc = const_str(n.value.args[0], lang)
    if rxsrc is None: raise AnalysisError("STRING regex not found in lang.py")
    # (1) structure
    try: p = sre.parse(rxsrc)
    except Exception as e: raise AnalysisError("STRING regex does not parse: %s" % e)
    items = list(p)
    branches = items[0][1][1] if len(items) == 1 and items[0][0] is sc.BRANCH else None
    if branches is None or len(branches) != 2:
        out.append(Finding("C04", "C04.a", L, "STRING", rxsrc, "STRING regex is not an alternation of a double-quoted and a single-quoted branch")); branches = []
    def unwrap(its):
        its = list(its)
        while len(its) == 1 and its[0][0] is sc.SUBPATTERN: its = list(its[0][1][3])
        return its
    seen_q = set()
    for b in branches:
        its = unwrap(b); inst += 1; okb = True
        def bad(msg):
            nonlocal okb; okb = False
            out.append(Finding("C04", "C04.a", L, "STRING", rxsrc, msg, witness='a string such as "a\\\\"b" or "a\\\\\'b"'))
        if len(its) != 3 or its[0][0] is not sc.LITERAL or its[2] != its[0] or its[1][0] not in (sc.MAX_REPEAT, sc.MIN_REPEAT):
            bad("a STRING branch is not  q ( ... )* q"); continue
        q = chr(its[0][1]); seen_q.add(q)
        lo, hi, body = its[1][1]
        if lo != 0 or hi is not sc.MAXREPEAT: bad("the body of a %s-delimited string is not repeated zero or more times" % q)
        body = unwrap(body)
        alts = [unwrap(a) for a in body[0][1][1]] if len(body) == 1 and body[0][0] is sc.BRANCH else [body]
        esc, cls = [], []
        for a in alts:
            if len(a) == 2 and a[0] == (sc.LITERAL, 92): esc.append(a[1])
            elif len(a) == 1: cls.append(a[0])
            else: bad("unsupported alternative inside a %s-delimited string" % q)
        if [e for e in esc] != [(sc.LITERAL, ord(q))]:
            bad("inside %s…%s the regex treats %s as escape sequences; documented: only backslash+%s" % (q, q, ["backslash+" + (chr(e[1]) if e[0] is sc.LITERAL else "any character") for e in esc] or "nothing", q))
        okcls = len(cls) == 1 and (cls[0] == (sc.NOT_LITERAL, ord(q)) or (cls[0][0] is sc.IN and list(cls[0][1]) == [(sc.NEGATE, None), (sc.LITERAL, ord(q))]))
        if not okcls: bad("inside %s…%s the ordinary-character class is not 'anything but %s' (a backslash in front of another character must stay an ordinary character)" % (q, q, q))
        ob("C04", "C04.a", L, "STRING", "regex branch for delimiter %s" % q, okb)
    if branches and seen_q != {"'", '"'}: out.append(Finding("C04", "C04.a", L, "STRING", rxsrc, "STRING delimiters are %s, documented ' and \"" % sorted(seen_q)))
    # (2) converter == documented unescape on every word of the regex language up to length 6
    param, body, label = _converter(mm, lang)
    try: nfa = rx.Nfa(rxsrc)
    except rx.Unsupported as e: raise AnalysisError("STRING regex outside the automaton subset: %s" % e)
    SIG = ["a", "\\", "'", '"']
    words = []
    frontier = [("", nfa.closure({nfa.start}))]
    for _ in range(6):
        nxt = []
        for w, S in frontier:
            for ch in SIG:
                T = nfa.step(S, ch)
                if not T: continue
                nxt.append((w + ch, T))
                if nfa.accept in T: words.append(w + ch)
        frontier = nxt
    if len(words) < 50: raise AnalysisError("STRING regex language has only %d words up to length 6" % len(words))
    badw = []
    for w in words:
        try: got = _run(body, param, w)
        except _Unsup: raise
        except Exception as e: got = "<%s>" % type(e).__name__
        if got != _spec(w): badw.append((w, got, _spec(w)))
    inst += 1
    ob("C04", "C04.a", MM, "TextXMetaModel.__init__", "STRING converter %s evaluated on %d words of the STRING language (exhaustive to length 6 over {a,\\,',\"}): %d disagree with the documented unescape" % (label[:40], len(words), len(badw)), not badw)
    STATS.counters["table_rows"] += len(words)
    if badw:
        w, got, exp = min(badw, key=lambda t: len(t[0]))
        out.append(Finding("C04", "C04.a", MM, "TextXMetaModel.__init__", "STRING converter: " + " ".join(label.split())[:120], "for the matched text %s the converter yields %r, documented value %r (%d of %d enumerated matches disagree)" % (w, got, exp, len(badw), len(words)), witness=w))
    return inst, out
