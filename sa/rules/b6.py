"""rule prototypes, batch 6: C23.a/b/c/e, C03.b/c, C02.a/b, C19.a, C01.a/b/c/d/e, C17.a/d, C22.b"""
import ast, sys, collections
from sa.util import *
from sa import atoms, sem
L = "textx/lang.py"; MM = "textx/metamodel.py"; M = "textx/model.py"
def _compile_scope(root):
    """functions reachable from metamodel_from_str by simple-name call graph inside lang/metamodel/rrel/registration/model(get_model_parser)"""
    files = [L, MM, "textx/scoping/rrel.py", "textx/registration.py"]
    defs = collections.defaultdict(list)
    for rel in files:
        for n in ast.walk(load(root, rel)):
            if isinstance(n, (ast.FunctionDef, ast.AsyncFunctionDef)): defs[n.name].append((rel, n))
    seen = {}; work = ["metamodel_from_str", "language_from_str"]
    # visitor methods are dispatched by name by arpeggio: all visit_* / second_* of TextXVisitor and RRELVisitor are reachable
    for rel in (L, "textx/scoping/rrel.py"):
        for n in ast.walk(load(root, rel)):
            if isinstance(n, ast.FunctionDef) and n.name.startswith(("visit_", "second_")): work.append(n.name)
    SKIP = {"model_from_str", "model_from_file", "internal_model_from_file", "grammar_model_from_str", "grammar_model_from_file", "get_next_matches", "apply", "find", "find_object_with_path", "parse", "__call__", "__getattr__", "__setattr__", "__delattr__", "__eq__", "__repr__", "process", "register_scope_providers", "__contains__"}
    while work:
        nm = work.pop()
        if nm in seen or nm in SKIP or nm not in defs: continue
        seen[nm] = defs[nm]
        for rel, d in defs[nm]:
            for c in calls(d):
                cn = callee_name(c)
                if cn and cn not in seen: work.append(cn)
            for x in ast.walk(d):      # functions passed as callbacks
                if isinstance(x, ast.Name) and isinstance(x.ctx, ast.Load) and x.id in defs and x.id not in seen: work.append(x.id)
            for x in ast.walk(d):
                if isinstance(x, ast.Subscript) and "metamodel" in ast.unparse(x.value) and not isinstance(getattr(x, "_parent", None), ast.Assign): work.append("__getitem__")
    return seen
TEXTX_ERRORS = {"TextXError", "TextXSemanticError", "TextXSyntaxError", "TextXRegistrationError"}

def _textx_raise(r, tree):
    """does `raise X` raise a TextX error?  X is a TextX error constructor call, or a call of a uniquely named function/method of
    the module whose every value return is such a constructor call (error construction extracted into a helper)"""
    if not (isinstance(r, ast.Raise) and isinstance(r.exc, ast.Call)): return False
    nm = callee_name(r.exc)
    if nm in TEXTX_ERRORS: return True
    ds = [d for d in ast.walk(tree) if isinstance(d, ast.FunctionDef) and d.name == nm]
    if len(ds) != 1: return False
    rets = [x for x in ast.walk(ds[0]) if isinstance(x, ast.Return) and x.value is not None]
    return bool(rets) and all(isinstance(x.value, ast.Call) and callee_name(x.value) in TEXTX_ERRORS for x in rets)
ASSERT_OK = {   # one line of reason each
    ("_new_import", "self.root_path is not None"): "documented exception: import in a grammar given as a string",
    ("_resolve_rule", "isinstance(rule, ParsingExpression)"): "internal invariant: every cross-ref was replaced by an expression above",
    ("visit_rrel_brackets", "len(children) == 1"): "guaranteed by the rrel_brackets grammar rule",
    ("visit_rrel_path_element", "len(children) == 1"): "guaranteed by the rrel_path_element grammar rule",
    ("__init__", "isinstance(oc, RRELSequence)"): "constructed only by visit_rrel_brackets from a sequence result",
    ("__init__", "isinstance(self.path_element, RRELBrackets)"): "normalised two lines above",
}
def _assert_via_callers(d, n, tree):
    """an assert on the parameters of a private helper holds when, at every call site of the helper, the test written in the caller's
    terms (parameters replaced by the arguments) is a confirmed invariant of that caller (ASSERT_OK): the invariant moved into a helper"""
    ps = [a.arg for a in d.args.args]
    sites = [c for c in ast.walk(tree) if isinstance(c, ast.Call) and callee_name(c) == d.name and enclosing_func(c) is not None and enclosing_func(c) is not d]
    if not sites or len([x for x in ast.walk(tree) if isinstance(x, ast.FunctionDef) and x.name == d.name]) != 1: return False
    is_static = any(isinstance(dec, ast.Name) and dec.id == "staticmethod" for dec in d.decorator_list)
    for c in sites:
        if c.keywords or any(isinstance(a, ast.Starred) for a in c.args): return False
        params = ps if (is_static or not isinstance(getattr(d, "_parent", None), ast.ClassDef) or not isinstance(c.func, ast.Attribute)) else ps[1:]
        if len(params) != len(c.args): return False
        m = dict(zip(params, c.args))
        class X(ast.NodeTransformer):
            def visit_Name(s_, x): return m.get(x.id, x)
        test = ast.unparse(X().visit(clone(n.test)))
        if (enclosing_func(c).name, test) not in ASSERT_OK: return False
    return True
RAISERS = {"decode": "codecs.decode (UnicodeDecodeError / ValueError on malformed escapes)", "compile": "regex compile (re.error)", "int": "int() (ValueError)", "float": "float() (ValueError)"}
def r_C23(root):
    out = []; inst = 0
    scope = _compile_scope(root)
    for nm, lst in scope.items():
        for rel, d in lst:
            for n in own_nodes(d):
                if isinstance(n, ast.Raise) and n.exc is not None:
                    inst += 1
                    cls = callee_name(n.exc) if isinstance(n.exc, ast.Call) else (n.exc.id if isinstance(n.exc, ast.Name) else None)
                    if cls in TEXTX_ERRORS or _textx_raise(n, load(root, rel)): continue
                    if isinstance(n.exc, ast.Name) and any(isinstance(a, ast.ExceptHandler) and a.name == n.exc.id for a in ancestors(n)): continue   # re-raise of caught
                    if cls == "KeyError" and nm == "__getitem__":
                        continue      # lookup miss; callers are checked below
                    out.append(Finding("C23", "C23.a", rel, qualname(n), " ".join(ast.unparse(n).split())[:90], "grammar compilation can raise %s, which is not a TextXError" % cls))
                if isinstance(n, ast.Assert):
                    if any(ast.unparse(g) == "TYPE_CHECKING" for g, pol in guards(n) if pol): continue   # never executed
                    inst += 1
                    key = (d.name, ast.unparse(n.test))
                    if key not in ASSERT_OK and _assert_via_callers(d, n, load(root, rel)): continue
                    if key not in ASSERT_OK: out.append(Finding("C23", "C23.a", rel, qualname(n), ast.unparse(n)[:90], "assert on the grammar compilation path is not in the confirmed table of internal invariants"))
                if isinstance(n, ast.Call) and callee_name(n) in RAISERS:
                    cn = callee_name(n)
                    if cn in ("int", "float") and not (isinstance(n.func, ast.Name)): continue
                    if cn == "compile" and not (isinstance(n.func, ast.Attribute)): continue
                    if cn == "decode" and "codecs" not in ast.unparse(n.func): continue
                    inst += 1
                    # protected by try/except that raises a TextX error?
                    prot = False
                    for a in ancestors(n):
                        if isinstance(a, ast.Try) and any(n is x for b in a.body for x in ast.walk(b)):
                            for h in a.handlers:
                                if any(_textx_raise(r, load(root, rel)) for r in ast.walk(h)): prot = True
                        if isinstance(a, (ast.FunctionDef,)): break
                    guarded = False
                    if cn == "compile":
                        try:
                            dq = qualname(d); di = find_i(root, rel, dq); fdi = sem.info(di)
                            comps = [x for x in calls(di, own=True) if callee_name(x) == "compile" and ast.unparse(x) == ast.unparse(n)]
                            guarded = bool(comps) and all(full_match_guard(fdi.atoms_at(x)) for x in comps)
                        except AnalysisError: guarded = False
                    regex_safe = cn == "int" and d.name == "visit_integer"     # argument matched by [-+]?[0-9]+
                    if cn == "compile" and d.name == "visit_str_match": guarded = True      # decided by evaluation: every pattern visit_str_match compiles is <identifier>\\b (C21.a, sa/rules/c21.py)
                    module_level = False
                    if not (prot or guarded or regex_safe):
                        # is the raiser called (transitively) only from a protected call site?  (decode_escapes <- visit_str_match)
                        target = d
                        while isinstance(getattr(target, "_parent", None), ast.FunctionDef) and not any(callee_name(c2) == target.name for n2, l2 in scope.items() for r2, d2 in l2 for c2 in calls(d2)):
                            target = target._parent      # nested helper used as a callback: look at callers of the enclosing function
                        callers = [(r2, d2, c2) for n2, l2 in scope.items() for r2, d2 in l2 for c2 in calls(d2) if callee_name(c2) == target.name and d2 is not target]
                        if callers and all(any(isinstance(a, ast.Try) and any(_textx_raise(r, load(root, rel2)) for h in a.handlers for r in ast.walk(h)) for a in ancestors(c2)) for rel2, _, c2 in callers): prot = True
                    if not (prot or guarded or regex_safe):
                        out.append(Finding("C23", "C23.b", rel, qualname(n), " ".join(ast.unparse(stmt_of(n)).split())[:90], "%s is not converted to a TextXError" % RAISERS[cn]))
    # KeyError lookups on the metamodel must be guarded or caught
    for nm, lst in scope.items():
        for rel, d in lst:
            if nm in ("__getitem__", "__contains__"): continue
            for x in own_nodes(d):
                if isinstance(x, ast.Subscript) and isinstance(x.ctx, ast.Load) and ast.unparse(x.value) in ("metamodel", "self.metamodel", "model_parser.metamodel"):
                    inst += 1
                    key = ast.unparse(x.slice)
                    g = [a_.replace(" ", "") for a_, pol in sem.info(d).atoms_at(x) if pol]
                    tried = any(isinstance(a, ast.Try) and any(h.type is not None and "KeyError" in ast.unparse(h.type) for h in a.handlers) for a in ancestors(x))
                    membership = any(("%sin" % key.replace(" ", "")) in t and "metamodel" in t for t in g)
                    known = (d.name, key) in {("visit_textx_rule", "rule_name"): 1, ("_determine_rule_type", "rule.rule_name"): 1, ("_resolve_rule", "rule_name"): 1}
                    if not (tried or membership or known):
                        out.append(Finding("C23", "C23.a", rel, qualname(x), " ".join(ast.unparse(stmt_of(x)).split())[:90], "metamodel lookup may raise KeyError (no membership test, no handler)"))
                    if (d.name, key) == ("_resolve_rule", "rule_name") and not (membership or tried):
                        out.append(Finding("C23", "C23.a", rel, qualname(x), " ".join(ast.unparse(stmt_of(x)).split())[:90], "unknown rule reference raises KeyError instead of a TextXSemanticError"))
    # C23.c: node kind agreement in visitors (terminal rules must not be subscripted / iterated)
    terminals = set()
    for n in load(root, L).body:
        if isinstance(n, ast.FunctionDef) and len(n.body) >= 1 and isinstance(n.body[-1], ast.Return):
            v = n.body[-1].value
            if isinstance(v, ast.Call) and getattr(v.func, "id", "") in ("_", "RegExMatch"): terminals.add(n.name)
    vis = find(load(root, L), "TextXVisitor")
    for f in [f for f in vis.body if isinstance(f, ast.FunctionDef) and f.name.startswith("visit_")]:
        rule = f.name[6:]
        if rule in terminals:
            inst += 1
            for x in ast.walk(f):
                if isinstance(x, ast.Subscript) and isinstance(x.value, ast.Name) and x.value.id == "node":
                    out.append(Finding("C23", "C23.c", L, "TextXVisitor." + f.name, ast.unparse(stmt_of(x))[:90], "parse-tree node of terminal rule %r is subscripted (TypeError when this line runs)" % rule, witness="Model: /(/;"))
    # C23.e guarded recursion in _resolve_rule (see C03.c)
    rr = find(load(root, L), "TextXVisitor._resolve_rule_refs._resolve_rule"); inst += 1
    rec = [c for c in calls(rr, own=True) if callee_name(c) == "_resolve_rule"]
    for c in rec:
        g = guards(c)
        is_xref_branch = any("isinstance(rule, RuleCrossRef)" in ast.unparse(t) and pol for t, pol in g)
        if is_xref_branch:
            # argument is a cross-ref: need a membership test on a visited collection keyed by name/ref on this path
            pre = [s for s in ast.walk(rr) if isinstance(s, ast.If) and s.lineno < c.lineno and any(isinstance(b, ast.Raise) for b in s.body) and " in " in ast.unparse(s.test) and ("resolving" in ast.unparse(s.test) or "visited" in ast.unparse(s.test) or "stack" in ast.unparse(s.test))]
            first_guard = rr.body[1] if len(rr.body) > 1 else None
            covers = isinstance(first_guard, ast.If) and "not isinstance(rule, RuleCrossRef)" not in ast.unparse(first_guard.test) and " in resolved_rules" in ast.unparse(first_guard.test)
            if not (pre or covers):
                out.append(Finding("C23", "C23.e", L, "_resolve_rule", ast.unparse(stmt_of(c))[:80], "recursion along rule cross-references has no cycle check (A: A; recurses until RecursionError)", witness="A: A;"))
            # the cycle check must look at the whole chain of names being resolved: membership in the collection itself
            # (a slice / the last element only catches A: A; but not A: B; B: A;), and that collection is pushed before the recursion
            for s_ in pre:
                for cmp_ in [x for x in ast.walk(s_.test) if isinstance(x, ast.Compare) and len(x.ops) == 1 and isinstance(x.ops[0], ast.In)]:
                    coll = cmp_.comparators[0]
                    whole = isinstance(coll, ast.Name) and any(isinstance(k, ast.Call) and isinstance(k.func, ast.Attribute) and k.func.attr in ("append", "add") and isinstance(k.func.value, ast.Name) and k.func.value.id == coll.id and k.lineno < c.lineno for k in ast.walk(rr))
                    ob("C23", "C23.e", L, "_resolve_rule", "cycle check: %s" % ast.unparse(cmp_), whole)
                    if not whole:
                        out.append(Finding("C23", "C23.e", L, "_resolve_rule", ast.unparse(cmp_)[:80], "the cycle check does not test membership in the whole chain of rules being resolved (%s): a cycle through two or more alias rules recurses until RecursionError" % ast.unparse(coll)[:40], witness="A: B; B: A;"))
    return inst, out
def r_C03bc(root):
    out = []; inst = 0
    dt = find(load(root, L), "TextXVisitor._determine_rule_types._determine_rule_type"); inst += 1
    upd = [c for c in calls(dt) if (callee_name(c) == "append" and "_tx_inh_by" in ast.unparse(c.func.value)) or callee_name(c) == "_add_reffered_classes" and enclosing_func(c) is dt]
    if not upd: raise AnalysisError("_tx_inh_by updates not found")
    import re as _re
    from sa import sem as _sem
    fidt = _sem.info(dt); p0 = dt.args.args[0].arg
    for c in upd:
        g = [ast.unparse(t).replace(" ", "") for t, pol in guards(c) if pol]
        if any("cls._tx_type!=RULE_ABSTRACT" in t for t in g):
            out.append(Finding("C03", "C03.b", L, "_determine_rule_type", ast.unparse(stmt_of(c))[:80], "inheritance list is extended only when the class first becomes abstract; referenced classes typed in later passes are lost (cyclic rules)", witness="A: 'a' B | X; B: 'b' A | Y;")); break
        # the update must not depend (through any branch or early exit) on the type recorded for this class in an earlier pass
        dep = [(a, pol) for a, pol in fidt.atoms_at(c) if _re.search(r"(?<![\w.])%s\._tx_type\b" % _re.escape(p0), a)]
        ob("C03", "C03.b", L, "_determine_rule_type", "inheritance update %s independent of the recorded type of %s" % (" ".join(ast.unparse(c).split())[:50], p0), not dep)
        if dep:
            out.append(Finding("C03", "C03.b", L, "_determine_rule_type", "%s under %s%s" % (" ".join(ast.unparse(c).split())[:50], "" if dep[0][1] else "not ", dep[0][0]), "whether the inheritance list of a class is recomputed depends on the type recorded for it in an earlier pass: classes that referenced rules gain in later passes (circular references) are never added", witness="Q: P | V; P: X | W; X: '(' Q ')' | KW;")); break
    ti = find(load(root, M), "textx_isinstance"); inst += 1
    rec = [c for c in calls(ti) if callee_name(c) == "textx_isinstance"]
    _fti = _sem.info(ti)
    def _visited_guard(c):
        # the recursive call lies where a membership test on a visited collection is known (nested if, or an early continue / return)
        return any(" in " in a and ("visited" in a or "seen" in a) for a, pol in _fti.atoms_at(c)) or any("visited" in ast.unparse(t) or " not in " in ast.unparse(t) for t, pol in guards(c))
    if rec and not all(_visited_guard(c) for c in rec):
        # harmless only while _tx_inh_by cannot be cyclic, i.e. while C03.b is violated; report only if C03.b holds
        if not any(f.rule == "C03.b" for f in out):
            out.append(Finding("C03", "C03.c", M, "textx_isinstance", ast.unparse(rec[0])[:80], "recursion over _tx_inh_by has no visited set although inheritance lists can be cyclic"))
    return inst, out
def r_C02ab(root):
    out = []; inst = 0
    up = find_i(root, L, "TextXVisitor.visit_textx_rule._update_attr_multiplicities")      # nested / private helpers inlined
    W = "_update_attr_multiplicities"
    param = up.args.args[1].arg
    fi = sem.info(up); cfg = fi.cfg; rd = fi.rd
    rec = [c for c in calls(up, own=True) if callee_name(c) == up.name]
    if len(rec) < 2: raise AnalysisError("expected the choice and the sequence recursion of _update_attr_multiplicities, found %d call(s)" % len(rec))
    def is_original(name_node, at):
        """the name denotes the very set object the caller passed in (only the parameter definition reaches)"""
        n = fi.node_of(at); ds = rd.defs_of(n, name_node.id)
        return name_node.id == param and ds and all(cfg.nodes[d].kind == "entry" for d in ds)
    def merges_back(copy_name, after_call):
        """after the call, some statement updates the ORIGINAL accumulator from the copy — for the copy of EVERY iteration when
        the call sits in a loop over the alternatives: either the merge is inside that loop, or the copy is put into a
        carrier list inside the loop and the carrier is merged (anywhere after)"""
        lp = next((a for a in ancestors(after_call) if isinstance(a, (ast.For, ast.While)) and enclosing_func(a) is up), None)
        inside = (lambda n: lp is None or any(a is lp for a in ancestors(n)))
        carriers = set()
        for n in own_nodes(up):
            if isinstance(n, ast.Call) and isinstance(n.func, ast.Attribute) and n.func.attr in ("append", "add") and any(isinstance(a, ast.Name) and a.id == copy_name for a in n.args) and isinstance(n.func.value, ast.Name) and inside(n):
                carriers.add(n.func.value.id)
        for n in own_nodes(up):
            tgt = None; srcs = []
            if isinstance(n, ast.Call) and isinstance(n.func, ast.Attribute) and n.func.attr in ("update", "__ior__") and isinstance(n.func.value, ast.Name): tgt, srcs = n.func.value, n.args
            elif isinstance(n, ast.AugAssign) and isinstance(n.op, ast.BitOr) and isinstance(n.target, ast.Name): tgt, srcs = n.target, [n.value]
            if tgt is None: continue
            used = {x.id for a in srcs for x in ast.walk(a) if isinstance(x, ast.Name)}
            if not ((copy_name in used and inside(n)) or (used & carriers)): continue
            st = stmt_of(n)
            if tgt.id == param and is_original(ast.Name(id=param), st): return True
        return False
    for c in rec:
        inst += 1
        if len(c.args) < 2 or not isinstance(c.args[1], ast.Name): raise AnalysisError("accumulator argument of the recursion is not a plain name: " + ast.unparse(c))
        S = c.args[1]; n = fi.node_of(c); ds = rd.defs_of(n, S.id)
        okc = True
        for d in ds:
            dn = cfg.nodes[d]
            if dn.kind == "entry" and S.id == param: continue                      # the caller's own set: nothing to check
            a = dn.ast
            if not (isinstance(a, ast.Assign) and len(a.targets) == 1 and isinstance(a.targets[0], ast.Name)): raise AnalysisError("unsupported definition of the accumulator argument: " + ast.unparse(a)[:80])
            derived = param in {x.id for x in ast.walk(a.value) if isinstance(x, ast.Name)}
            if not derived:
                okc = False; out.append(Finding("C02", "C02.a", L, W, " ".join(ast.unparse(a).split()) + "; " + ast.unparse(c), "assignments made earlier in the enclosing sequence are not visible inside this sub-expression (a fresh set is passed down)", witness="a=INT (a=INT | b=INT)"))
            if S.id == param or not merges_back(S.id, c):
                okc = False; out.append(Finding("C02", "C02.a", L, W, " ".join(ast.unparse(a).split()) + "; " + ast.unparse(c), "assignments made inside this sub-expression are recorded in a copy that is never merged back: the rest of the enclosing sequence does not see them", witness="(a=INT | b=INT) a=INT   /   ('x' a=INT)? a=INT"))
        ob("C02", "C02.a", L, W, ast.unparse(c), okc)
    # the accumulator is consulted and extended at an assignment
    inst += 1
    adds = [n for n in calls(up, own=True) if isinstance(n.func, ast.Attribute) and n.func.attr == "add" and isinstance(n.func.value, ast.Name) and n.func.value.id == param]
    tests = [n for n in own_nodes(up) if isinstance(n, ast.Compare) and isinstance(n.ops[0], ast.In) and isinstance(n.comparators[0], ast.Name) and n.comparators[0].id == param]
    if not adds or not tests:
        out.append(Finding("C02", "C02.a", L, W, "in %s / %s.add(...)" % (param, param), "assignments are not %s the set of attributes seen so far" % ("recorded in" if not adds else "compared with")))
    ob("C02", "C02.a", L, W, "membership test and add on the accumulator", bool(adds and tests))
    # b: repetition promotes, priority table, ?= in repetition rejected
    inst += 3
    def _g_has(st_, pred):
        return any(pol and pred(t) for t, pol in guards(st_))
    def _isinst(t, cls_):
        return any(isinstance(c, ast.Call) and callee_name(c) == "isinstance" and len(c.args) == 2 and cls_ in {x.id for x in ast.walk(c.args[1]) if isinstance(x, ast.Name)} for c in ast.walk(t))
    asg = [n for n in own_nodes(up) if isinstance(n, ast.Assign) and len(n.targets) == 1]
    many = {"OneOrMore": "MULT_ONEORMORE", "ZeroOrMore": "MULT_ZEROORMORE"}
    mult_vars = set()
    for cls_, const_ in many.items():
        hit = [a for a in asg if isinstance(a.targets[0], ast.Name) and isinstance(a.value, ast.Name) and a.value.id == const_ and _g_has(a, lambda t: _isinst(t, cls_))]
        mult_vars |= {a.targets[0].id for a in hit}
        if not hit: mult_vars = None; break
    promoted = False
    if mult_vars:
        for a in asg:
            if isinstance(a.targets[0], ast.Attribute) and a.targets[0].attr == "mult" and isinstance(a.value, ast.Name) and a.value.id in mult_vars and _g_has(a, lambda t: any(isinstance(c, ast.Call) and callee_name(c) == "mult_lt" for c in ast.walk(t))): promoted = True
    ob("C02", "C02.b", L, W, "repetition promotes the attribute multiplicity (guarded by mult_lt)", promoted)
    if not promoted:
        out.append(Finding("C02", "C02.b", L, "_update_attr_multiplicities", "repetition case", "assignments under a repetition are not promoted to a list"))
    rej = [r_ for r_ in own_nodes(up) if isinstance(r_, ast.Raise) and r_.exc is not None and "TextXSemanticError" in ast.unparse(r_.exc) and _g_has(r_, lambda t: "__asgn_optional" in ast.unparse(t))]
    ob("C02", "C02.b", L, W, "?= inside a repetition is rejected", bool(rej))
    if not rej: out.append(Finding("C02", "C02.b", L, "_update_attr_multiplicities", "?= in repetition", "bool assignment inside a repetition is not rejected"))
    const = load(root, "textx/const.py")
    pr = next(n for n in const.body if isinstance(n, ast.Assign) and ast.unparse(n.targets[0]) == "priority")
    if [e.id for e in pr.value.elts] != ["MULT_OPTIONAL", "MULT_ONE", "MULT_ZEROORMORE", "MULT_ONEORMORE"]: out.append(Finding("C02", "C02.b", "textx/const.py", "priority", ast.unparse(pr), "multiplicity order changed"))
    return inst, out
def r_C19a_C01(root):
    out = []; inst = 0
    t = load(root, L)
    # C19.a: context-changing modifiers vs memoization
    arp = None
    import importlib.util
    spec = importlib.util.find_spec("arpeggio"); arp = ast.parse(open(spec.origin).read())
    for a in ast.walk(arp):
        for c in ast.iter_child_nodes(a): c._parent = a
    pe = next(n for n in arp.body if isinstance(n, ast.ClassDef) and n.name == "ParsingExpression")
    parse = next(f for f in pe.body if isinstance(f, ast.FunctionDef) and f.name == "parse")
    keys = {ast.unparse(x.slice) for x in ast.walk(parse) if isinstance(x, ast.Subscript) and "_result_cache" in ast.unparse(x.value)}
    ctx_in_key = any(k for k in keys if "ws" in k or "eolterm" in k)
    sites = []
    vt = find(t, "TextXVisitor.visit_textx_rule")
    for c in calls(vt, own=True):
        if callee_name(c) == "Sequence" and any(k.arg is None and "rule_params" in ast.unparse(k.value) for k in c.keywords): sites.append(("visit_textx_rule", c, "ws/skipws rule modifiers"))
        if callee_name(c) == "setattr" and "rule_params" in ast.unparse(c): sites.append(("visit_textx_rule", c, "ws/skipws rule modifiers"))
    for fn_name in ("visit_repeatable_expr", "visit_assignment"):
        f = find(t, "TextXVisitor." + fn_name)
        for s in own_nodes(f):
            if isinstance(s, ast.Assign) and isinstance(s.targets[0], ast.Attribute) and s.targets[0].attr == "eolterm": sites.append((fn_name, s, "eolterm"))
    for fn_name, node, what in sites:
        inst += 1
        g = [ast.unparse(x) for x, pol in guards(node)]
        if not ctx_in_key and not any("memoization" in x for x in g):
            out.append(Finding("C19", "C19.a", L, "TextXVisitor." + fn_name, " ".join(ast.unparse(node).split())[:80], "%s change the parser context, which arpeggio's packrat key (%s) ignores; combined with memoization=True results differ" % (what, sorted(keys))))
    # C01.d: options forwarded under their own name, by evaluation of visit_textx_model (sa/pyeval.py) with a recording
    #        stand-in for get_model_parser: whatever way the arguments are put together, each option of the meta-model arrives
    #        under its own name, the root rule and the Comment rule are handed over, the parser gets the meta-model
    from sa import pyeval as _pe
    vm = find(t, "TextXVisitor.visit_textx_model"); vps = [a_.arg for a_ in vm.args.args]
    OPT_PROP = {"memoization": ("C19", "C19.b"), "ignore_case": ("C20", "C20.b"), "autokwd": ("C21", "C21.b"), "skipws": ("C22", "C22.c"), "ws": ("C22", "C22.c")}
    need = ["ignore_case", "skipws", "ws", "autokwd", "memoization", "debug"]
    VALS = [{o: ("opt", o) for o in need}, dict({o: False for o in need}, ws=" \t"), dict({o: True for o in need}, ws=""), dict({o: False for o in need}, ws=None, skipws=True)]
    for with_comment, vals in ((False, VALS[0]), (True, VALS[0]), (False, VALS[1]), (False, VALS[2]), (False, VALS[3])):
        rec = []
        def _gmp(top_rule, comments_model=None, **kw): rec.append((top_rule, comments_model, kw)); return {".kind": "parser"}
        peg_c = {".kind": "comment-peg-rule"}
        mm_ = {".kind": "metamodel", ".file": ("opt", "file")}
        for o in need: mm_["." + o] = vals[o]
        if with_comment: mm_["Comment"] = {"._tx_peg_rule": peg_c, ".kind": "cls"}
        root_rule = {".kind": "root-rule"}
        env = {"__functions__": {k_: v_ for k_, v_ in helper_functions(root, L, "TextXVisitor.visit_textx_model").items() if k_.startswith("_") and not k_.startswith("__")}, vps[0]: {".metamodel": mm_, ".kind": "visitor", ".grammar_parser": dict({".kind": "grammar-parser", ".file": ("grammar-parser", "file")}, **{"." + o_: ("grammar-parser", o_) for o_ in need}), ".debug": False}, vps[1]: {".kind": "node"}, vps[2]: [root_rule], "get_model_parser": _pe.PyFn(_gmp)}
        try: res_ = _pe.run_block(vm.body, env); err_ = None
        except _pe.Raised as r_: res_ = None; err_ = "raises " + r_.cls
        except _pe.Unsupported as u_: raise AnalysisError("visit_textx_model: outside the evaluated subset: %s" % u_)
        if err_ or len(rec) != 1:
            inst += 1; out.append(Finding("C01", "C01.d", L, "TextXVisitor.visit_textx_model", "get_model_parser(...)", "the model parser is not created exactly once (%s)" % (err_ or "%d calls of get_model_parser" % len(rec)))); continue
        top_, cm_, kw_ = rec[0]
        if not with_comment:
            for o in need:
                inst += 1
                okk = o in kw_ and type(kw_[o]) is type(vals[o]) and kw_[o] == vals[o]
                for pr, ru in [("C01", "C01.d")] + ([OPT_PROP[o]] if o in OPT_PROP else []):
                    ob(pr, ru, L, "TextXVisitor.visit_textx_model", "option %s reaches get_model_parser as the meta-model's %s (%s)" % (o, o, "all options distinct markers" if vals is VALS[0] else "skipws=%r ws=%r, others %r" % (vals["skipws"], vals["ws"], vals["debug"])), okk)
                    if not okk: out.append(Finding(pr, ru, L, "TextXVisitor.visit_textx_model", "get_model_parser(... %s ...)" % o, "parser option %r of the metamodel is not forwarded to the model parser%s (it arrives as %s)" % (o, "" if vals is VALS[0] else " when the meta-model has skipws=%r, ws=%r" % (vals["skipws"], vals["ws"]), "nothing" if o not in kw_ else ("the %s's %s" % ("meta-model" if kw_[o][0] == "opt" else kw_[o][0], kw_[o][1]) if isinstance(kw_[o], tuple) else repr(kw_[o])))))
        inst += 1
        okc_ = top_ is root_rule and (cm_ is peg_c if with_comment else cm_ is None) and isinstance(res_, dict) and res_.get(".metamodel") is mm_
        ob("C01", "C01.d", L, "TextXVisitor.visit_textx_model", "root rule, Comment rule (%s) and meta-model handed to the parser" % ("present" if with_comment else "absent"), okc_)
        if not okc_: out.append(Finding("C01", "C01.d", L, "TextXVisitor.visit_textx_model", "grammar %s a Comment rule" % ("with" if with_comment else "without"), "the model parser is built from %s with comment rule %s and %s" % ("the first rule" if top_ is root_rule else "something else than the first rule", "the Comment rule's expression" if cm_ is peg_c else cm_, "the meta-model attached" if isinstance(res_, dict) and res_.get(".metamodel") is mm_ else "no meta-model attached")))
    # the parser object itself, by evaluation of get_model_parser (the class statement aside) and of TextXModelParser.__init__:
    # the compiled grammar is  Sequence([<the first rule>, EOF()])  marked as root, the Comment rule is kept, and the
    # parser options go on to arpeggio's Parser.__init__ under their own names
    mt = load(root, M); gmp = find(mt, "get_model_parser"); pi = find(mt, "get_model_parser.TextXModelParser.__init__"); inst += 1
    pcls = getattr(pi, "_parent", None)
    for OPTS_, optwhat in (({o: ("opt", o) for o in need}, "distinct markers"), (dict({o: False for o in need}, ws="", skipws=True), "an empty whitespace set ws='' (nothing is skipped)")):
        top_s = {".kind": "first-rule"}; com_s = {".kind": "comment-rule"}; opts = dict(OPTS_)
        ctor = []; sup = []
        gps = [a_.arg for a_ in gmp.args.args]
        if len(gps) < 2 or gmp.args.kwarg is None: raise AnalysisError("get_model_parser: expected (top_rule, comments_model, **kwargs), got %s" % ast.unparse(gmp.args))
        genv = {"__functions__": {k_: v_ for k_, v_ in helper_functions(root, M, "get_model_parser").items() if k_ != "get_model_parser"}, "__module__": mt, gps[0]: top_s, gps[1]: com_s, gmp.args.kwarg.arg: dict(opts),
                pcls.name: _pe.PyFn(lambda *a_, **k_: (ctor.append((a_, k_)), {".kind": "parser"})[1])}
        try: _pe.run_block(gmp.body, genv)
        except _pe.Raised as r_: ctor = None; gerr = "get_model_parser raises " + r_.cls
        except _pe.Unsupported as u_: raise AnalysisError("get_model_parser: outside the evaluated subset: %s" % u_)
        okp = False; why = ""
        if not ctor or len(ctor) != 1: why = (gerr if ctor is None else "the parser class is instantiated %d times" % len(ctor))
        else:
            a_, k_ = ctor[0]; ips = [x.arg for x in pi.args.args]
            selfo = {".kind": "parser"}
            ienv = dict(genv); ienv.pop(pcls.name, None); ienv[ips[0]] = selfo
            named = ips[1:]; rest = list(a_[len(named):]); kw2 = dict(k_)
            for n_, v_ in zip(named, a_): ienv[n_] = v_
            for n_ in named[len(a_):]:
                if n_ in kw2: ienv[n_] = kw2.pop(n_)
            dflt = dict(zip(ips[len(ips) - len(pi.args.defaults):], pi.args.defaults))
            for n_, d_ in dflt.items():
                if n_ not in ienv: ienv[n_] = _pe.evaluate(d_, genv)
            if pi.args.vararg: ienv[pi.args.vararg.arg] = tuple(rest)
            elif rest: why = "the constructor gets more positional arguments than it takes"
            if pi.args.kwarg: ienv[pi.args.kwarg.arg] = kw2
            elif kw2: why = "the constructor gets keyword arguments it does not take: %s" % sorted(kw2)
            ienv["super"] = _pe.PyFn(lambda *x_: {".__init__": _pe.PyFn(lambda *sa_, **sk_: sup.append((sa_, sk_)))})
            ienv["Sequence"] = _pe.PyFn(lambda *sa_, **sk_: dict({".kind": "Sequence", ".args": sa_}, **{"." + kk_: vv_ for kk_, vv_ in sk_.items()}))
            ienv["EOF"] = _pe.PyFn(lambda *sa_, **sk_: {".kind": "EOF"})
            ienv["__functions__"] = {k2_: v2_ for k2_, v2_ in helper_functions(root, M, "get_model_parser.TextXModelParser.__init__").items() if k2_ != "__init__"}
            if not why:
                try: _pe.run_block(pi.body, ienv)
                except _pe.Raised as r_: why = "TextXModelParser.__init__ raises " + r_.cls
                except _pe.Unsupported as u_: raise AnalysisError("TextXModelParser.__init__: outside the evaluated subset: %s" % u_)
            if not why:
                pmv = selfo.get(".parser_model"); nd = pmv.get(".nodes") if isinstance(pmv, dict) else None
                if not (isinstance(pmv, dict) and pmv.get(".kind") == "Sequence" and isinstance(nd, list) and len(nd) == 2 and nd[0] is top_s and isinstance(nd[1], dict) and nd[1].get(".kind") == "EOF"):
                    why = "the compiled grammar of the parser is %s" % ("a sequence of %s" % [x_.get(".kind") if isinstance(x_, dict) else x_ for x_ in nd] if isinstance(nd, list) else repr(pmv)[:60])
                elif pmv.get(".root") is not True: why = "the start sequence is not marked as the root rule"
                elif selfo.get(".comments_model") is not com_s: why = "the parser's comments_model is %r, not the Comment rule handed over" % (selfo.get(".comments_model"),)
                elif len(sup) != 1 or any(o not in sup[0][1] or sup[0][1][o] != OPTS_[o] or type(sup[0][1][o]) is not type(OPTS_[o]) for o in need) or sup[0][0]: why = "arpeggio's Parser.__init__ %s" % ("is not called exactly once" if len(sup) != 1 else "gets %s; expected every parser option under its own name" % (sorted(sup[0][1]) or "no options"))
                else: okp = True
        for pr in ("C01", "C22"): ob(pr, "C01.d", M, "TextXModelParser.__init__", "the parser's grammar is [first rule, EOF] (root), the Comment rule is kept, the options reach arpeggio's Parser (%s)" % optwhat, okp)
        if not okp:
            for pr in ("C01", "C22"): out.append(Finding(pr, "C01.d", M, "TextXModelParser.__init__", "self.parser_model / comments_model / Parser.__init__ (%s)" % optwhat, "%s; documented: the model parser matches the first rule of the grammar followed by the end of input, skips what the Comment rule matches, and runs with the meta-model's parser options" % why))
    # C01.a / C01.b (what the repetition and assignment visitors build) are decided by evaluation: sa/rules/c01e.py
    # C01.c: rule modifiers only on expressions that honour them (truth table on the setattr path)
    inst += 1
    sa = next((c for c in calls(vt, own=True) if callee_name(c) == "setattr" and "rule_params" in ast.unparse(c)), None)
    if sa is not None:
        conds = guards(sa)
        atomset = collections.OrderedDict()
        def collect(e):
            if isinstance(e, ast.BoolOp):
                for v in e.values: collect(v)
            elif isinstance(e, ast.UnaryOp) and isinstance(e.op, ast.Not): collect(e.operand)
            else: atomset[ast.unparse(e)] = e
        for tst, pol in conds: collect(tst)
        names = list(atomset)
        import itertools
        def truth(e, v):
            if isinstance(e, ast.BoolOp): vs = [truth(x, v) for x in e.values]; return all(vs) if isinstance(e.op, ast.And) else any(vs)
            if isinstance(e, ast.UnaryOp) and isinstance(e.op, ast.Not): return not truth(e.operand, v)
            return v[ast.unparse(e)]
        def classes_of(a):
            e = atomset[a]
            if isinstance(e, ast.Call) and getattr(e.func, "id", "") == "isinstance" and ast.unparse(e.args[0]) == "root_rule":
                c = e.args[1]; return {x.id for x in (c.elts if isinstance(c, ast.Tuple) else [c])}
            return None
        HONOUR = {"Sequence", "OrderedChoice"}
        KINDS = ["Sequence", "OrderedChoice", "Optional", "ZeroOrMore", "OneOrMore", "UnorderedGroup", "Not", "And", "StrMatch", "RegExMatch", "RuleCrossRef"]
        SUB = {"Sequence": {"Sequence"}, "OrderedChoice": {"OrderedChoice", "Sequence"}, "StrMatch": {"StrMatch", "Match"}, "RegExMatch": {"RegExMatch", "Match"}}
        bad = None
        for kind in KINDS:
            supers = SUB.get(kind, {kind})
            for bits in itertools.product([False, True], repeat=len(names)):
                v = dict(zip(names, bits))
                okv = True
                for a in names:
                    cl = classes_of(a)
                    if cl is not None and v[a] != bool(cl & supers): okv = False
                    if a == "rule_params" and not v[a]: okv = False           # loop body executes => params non-empty
                    if "startswith('__asgn')" in a and v[a] and kind in ("Not", "And", "StrMatch", "RegExMatch", "RuleCrossRef"): okv = False
                if not okv: continue
                if all(truth(tst, v) == pol for tst, pol in conds if not isinstance(tst, ast.Name) or True):
                    if kind not in HONOUR: bad = kind; break
            if bad: break
        if bad: out.append(Finding("C01", "C01.c", L, "TextXVisitor.visit_textx_rule", ast.unparse(sa), "rule modifiers are set on a %s expression, whose parse method ignores ws/skipws" % bad, witness="A[noskipws]: 'a'+;"))
    return inst, out
def r_C17ad_C22b(root):
    out = []; inst = 0
    drv = find(load(root, M), "parse_tree_to_objgraph"); inst += 1
    cb = [c for c in calls(drv, own=True) if callee_name(c) == "pre_ref_resolution_callback"]
    # the loader call itself, or a call of a function nested in the driver that makes it (the guarded call extracted into a local helper)
    loaders_ = {"load_models"} | {f_.name for f_ in ast.walk(drv) if isinstance(f_, ast.FunctionDef) and f_ is not drv and any(isinstance(c_, ast.Call) and callee_name(c_) == "load_models" for c_ in ast.walk(f_))}
    lm = [c for c in calls(drv, own=True) if callee_name(c) in loaders_]
    if not cb or not lm: raise AnalysisError("callback / load_models sites not found")
    if min(c.lineno for c in lm) < max(c.lineno for c in cb): out.append(Finding("C17", "C17.a", M, "parse_tree_to_objgraph", ast.unparse(lm[0]), "imports are loaded before the model is registered (import cycles load a file twice / recurse)"))
    # C17.d normalisation agreement for synthetic keys
    S = "textx/scoping/__init__.py"; up = find(load(root, S), "GlobalModelRepository.update_model_in_repo_based_on_filename"); inst += 2
    hm = find(load(root, S), "ModelRepository.has_model"); norm_lookup = "abspath" in ast.unparse(hm)
    for c in calls(up):
        if callee_name(c) == "has_model" and norm_lookup:
            a = c.args[0]
            synthetic = isinstance(a, ast.JoinedStr) or (isinstance(a, ast.Constant))
            if synthetic: out.append(Finding("C17", "C17.d", S, "update_model_in_repo_based_on_filename", ast.unparse(c), "synthetic key is looked up through the abspath-normalising has_model but stored raw: the counter never advances and anonymous models overwrite each other", witness="two string-parsed models added to a GlobalRepo"))
    for s in own_nodes(up):
        if isinstance(s, ast.Assign) and ast.unparse(s.targets[0]) == "myfilename" and "_tx_filename" in ast.unparse(s.value) and "abspath" not in ast.unparse(s.value):
            out.append(Finding("C17", "C17.d", S, "update_model_in_repo_based_on_filename", ast.unparse(s), "file key stored without abspath normalisation"))
    # C22.b (the grammar's Comment rule becomes the parser's comment model) is decided by evaluation: C01.d above
    return inst, out
ALL = [r_C23, r_C03bc, r_C02ab, r_C19a_C01, r_C17ad_C22b]
if __name__ == "__main__":
    from sa import util
    for root in sys.argv[1:] or ["/repo"]:
        print("=====", root); util._cache.clear()
        for r in ALL:
            try:
                inst, fs = r(root); print("%-22s instances=%-3d findings=%d" % (r.__name__, inst, len(fs)))
                for f in fs: print("     ", f)
            except AnalysisError as e: print(r.__name__, "ANALYSIS-ERROR", e)
