"""C13.a / C13.b / C13.c  call_obj_processors decided by evaluation (sa/pyeval.py; nothing of textX runs).

The walker (with whatever helpers it calls) is interpreted over a sample model
      Model { items: [s1: Special1 { kid: Leaf }, s2: Special2]  (contained, many, declared type Base = Special1 | Special2)
              single: leaf1: Leaf                  (contained, one)
              ref:    leaf2: Leaf                  (NOT contained)
              name:   'n'                          (match-rule value, declared type ID) }
with processors registered for Special1 (returns a replacement), Base (returns a replacement), Leaf and Model (return
None) and none for Special2; metamodel.process / has_obj_processor / get_location are recording stand-ins.
  C13.a  children before their container; for one object its own rule's processor before the declared rule's; once each
  C13.b  a non-None result replaces the object in the list slot / in the attribute; the own-rule result wins over the
         declared-rule result; a None result leaves the object in place
  C13.c  only contained attributes are descended; match-rule values are not handed to the walker's processors"""
import ast
from sa.util import *
from sa import pyeval
M = "textx/model.py"
def r_C13eval(root):
    out = []; inst = 0
    t = load(root, M); cp = find(t, "parse_tree_to_objgraph.call_obj_processors")
    ps = [a.arg for a in cp.args.args]
    if len(ps) < 2: raise AnalysisError("call_obj_processors: expected (metamodel, model_obj, [declared class]), got %s" % ps)
    fns = {k: v for k, v in helper_functions(root, M, "parse_tree_to_objgraph.call_obj_processors").items() if k not in ("get_location", "process_node", "process_match", "parse_tree_to_objgraph")}
    RM, RC, RA = "match", "common", "abstract"
    def cls(name, typ, attrs=None): return {".__name__": name, "._tx_fqn": "ns." + name, "._tx_type": typ, "._tx_attrs": attrs or {}, ".kind": "cls"}
    def attr(name, c, cont, mult): return {".name": name, ".cls": c, ".cont": cont, ".mult": mult, ".ref": not cont, ".kind": "metaattr"}
    cID = cls("ID", RM); cLeaf = cls("Leaf", RC, {}); cS1 = cls("Special1", RC, {}); cS1["._tx_attrs"] = {"kid": attr("kid", cLeaf, True, "1")}; cS2 = cls("Special2", RC, {}); cBase = cls("Base", RA, {})
    cModel = cls("Model", RC); cModel["._tx_attrs"] = {"items": attr("items", cBase, True, "1..*"), "single": attr("single", cLeaf, True, "1"), "ref": attr("ref", cLeaf, False, "1"), "name": attr("name", cID, True, "1")}
    _pos = [10]
    def obj(c, **kw):
        _pos[0] += 10
        o = {".__class__": c, "._tx_fqn": c["._tx_fqn"], ".kind": "obj", "._tx_position": _pos[0], "._tx_position_end": _pos[0] + 5}
        for k, v in kw.items(): o["." + k] = v
        return o
    class _Eq(dict):
        """object of a user class with a value-based __eq__: distinct objects that compare equal"""
        __hash__ = object.__hash__
        def __eq__(a, b): return isinstance(b, _Eq) and a.get(".eqkey") == b.get(".eqkey")
        def __ne__(a, b): return not a.__eq__(b)
    leafk = obj(cLeaf); s1 = obj(cS1, kid=leafk); s2 = obj(cS2); leaf1 = obj(cLeaf); leaf2 = obj(cLeaf)
    s3 = _Eq(obj(cS2, eqkey="same")); s4 = _Eq(obj(cS2, eqkey="same"))
    # the list starts with a None element (a value an earlier processor reduced to None) and holds two distinct objects that compare equal
    model = obj(cModel, items=[None, s1, s2, s3, s4], single=leaf1, ref=leaf2, name="n")
    R1 = {".kind": "replacement", ".tag": "by Special1"}; RB = {".kind": "replacement", ".tag": "by Base"}; RB4 = {".kind": "replacement", ".tag": "by Base for the second of the equal objects"}
    registered = {"Special1": lambda o: R1, "Base": lambda o: None if o is s3 else (RB4 if o is s4 else RB), "Leaf": lambda o: None, "Model": lambda o: None, "ID": lambda o: "processed-n"}
    log = []
    # the stand-in binds its arguments the way the analysed TextXMetaModel.process declares them
    pr_fn = find(load(root, "textx/metamodel.py"), "TextXMetaModel.process"); pr_ps = [a.arg for a in pr_fn.args.args][1:]
    if len(pr_ps) < 2: raise AnalysisError("TextXMetaModel.process: expected (self, value, type name, location...), got %s" % pr_ps)
    def process(*args, **kw):
        if len(args) > len(pr_ps): raise pyeval.Raised("TypeError")
        b = dict(zip(pr_ps, args))
        for k_, v_ in kw.items():
            if k_ in b or (k_ not in pr_ps and not pr_fn.args.kwarg): raise pyeval.Raised("TypeError")
            b[k_] = v_
        o, name = b.pop(pr_ps[0]), b.pop(pr_ps[1])
        log.append((o, name, b)); return registered[name](o)
    mm = {".has_obj_processor": pyeval.PyFn(lambda n: n in registered), ".process": pyeval.PyFn(process), ".kind": "metamodel"}
    for c in (cID, cLeaf, cS1, cS2, cBase, cModel): mm[c[".__name__"]] = c; mm[c["._tx_fqn"]] = c
    env = {"__functions__": fns, ps[0]: mm, ps[1]: model, "RULE_MATCH": RM, "RULE_COMMON": RC, "RULE_ABSTRACT": RA,
           "MULT_ONEORMORE": "1..*", "MULT_ZEROORMORE": "0..*", "MULT_ONE": "1", "MULT_OPTIONAL": "0..1",
           "get_location": pyeval.PyFn(lambda o: {"line": ("line-of", id(o)), "col": 1, "nchar": 2, "filename": "f"}),
           "TextXSemanticError": pyeval.PyFn(lambda *a, **k: {".exc": "TextXSemanticError"}),
           # locals of the enclosing parse_tree_to_objgraph a closure could reach: they belong to the MAIN model of the load
           "parser": {".kind": "parser", ".pos_to_linecol": pyeval.PyFn(lambda pos: ("main-parser-line", pos)), ".metamodel": mm, ".file_name": "main.file"}, "file_name": "main.file", "model": model}
    for p_, d_ in zip(ps[len(ps) - len(cp.args.defaults):], cp.args.defaults): env[p_] = pyeval.evaluate(d_, {})
    try: k, v = "ret", pyeval.run_block(cp.body, env)
    except pyeval.Raised as r_: k, v = "raise", r_.cls
    except pyeval.Unsupported as u_: raise AnalysisError("call_obj_processors: outside the evaluated subset: %s" % u_)
    names = {id(leafk): "leafk", id(s1): "s1", id(s2): "s2", id(s3): "s3", id(s4): "s4", id(leaf1): "leaf1", id(leaf2): "leaf2", id(model): "model"}
    seq = [(names.get(id(o), "n" if o == "n" else "?"), n) for o, n, _l in log]
    W = "parse_tree_to_objgraph.call_obj_processors"
    def rep(ok, clause, what, msg, prop="C13"):
        nonlocal inst
        inst += 1; ob(prop, clause, M, W, what, ok)
        if not ok: out.append(Finding(prop, clause, M, W, what, msg))
    rep(k == "ret", "C13.a", "the walk over the sample model completes", "the processor walk over the sample model raises %s" % (v,))
    if k != "ret": return inst, out
    want_seq = [("leafk", "Leaf"), ("s1", "Special1"), ("s1", "Base"), ("s2", "Base"), ("s3", "Base"), ("s4", "Base"), ("leaf1", "Leaf"), ("model", "Model")]
    pos = {x: i for i, x in enumerate(seq)}
    contains = [("model", "s1"), ("model", "s2"), ("model", "leaf1"), ("s1", "leafk")]
    def first(o_): return min([i for i, x in enumerate(seq) if x[0] == o_], default=None)
    def last(o_): return max([i for i, x in enumerate(seq) if x[0] == o_], default=None)
    viol = [(c_, k_) for c_, k_ in contains if first(c_) is not None and last(k_) is not None and last(k_) > first(c_)]
    rep(not viol, "C13.a", "children are processed before their container",
        "processor calls on the sample model come in the order %s: %s is processed before its contained object %s (every contained object must be processed before the object that contains it)" % (seq, viol[0][0] if viol else "", viol[0][1] if viol else ""))
    rep(("s1", "Special1") in pos and ("s1", "Base") in pos and pos[("s1", "Special1")] < pos[("s1", "Base")], "C13.a", "own-rule processor before the declared-rule processor",
        "for an object of Special1 in an attribute declared as Base the processors run in the order %s: the object's own rule first, then the declared rule" % [x for x in seq if x[0] == "s1"])
    rep(len(seq) == len(set(seq)) and sorted(seq) == sorted(want_seq), "C13.a", "each registered processor is called exactly once per object",
        "processor calls on the sample model: %s; expected exactly %s (Special2 has no processor; the non-contained Leaf and the match-rule value are not the walker's business)" % (seq, want_seq))
    items = model.get(".items")
    rep(isinstance(items, list) and len(items) == 5 and items[0] is None and items[1] is R1 and items[2] is RB and items[3] is s3 and items[4] is RB4, "C13.b", "replacements land in the slot of the processed element, own-rule result wins",
        "after the walk the list attribute holds %s; expected [None (untouched), the replacement returned by Special1's processor, the replacement returned by Base's processor, the third object itself (its processor returned None), the replacement for the fourth object] - every result belongs in the slot of the element it was computed for, also after a None element and for objects that compare equal" % ([("None" if x is None else x.get(".tag", "the object s3" if x is s3 else "the object s4" if x is s4 else x.get(".kind"))) for x in items] if isinstance(items, list) else items,))
    rep(model.get(".single") is leaf1, "C13.b", "a None result leaves the object in place", "a processor that returns None must leave the object in its attribute; the attribute now holds %s" % (names.get(id(model.get(".single")), model.get(".single")),))
    rep(not any(o is leaf2 for o, _n, _l in log) and model.get(".ref") is leaf2, "C13.c", "non-contained attributes are not descended", "the walker processed the target of a non-containment reference (it is processed where it is contained)")
    rep(not any(n == "ID" for _o, n, _l in log) and model.get(".name") == "n", "C13.c", "match-rule values are skipped", "the walker ran a processor on a match-rule value (these run during model construction, in process_match)")
    # single-valued replacement
    inst += 0
    log1 = list(log); registered["Leaf"] = lambda o: R1; del log[:]
    model2 = obj(cModel, items=[], single=leaf1, ref=leaf2, name="n")
    env2 = dict(env); env2[ps[1]] = model2
    for p_, d_ in zip(ps[len(ps) - len(cp.args.defaults):], cp.args.defaults): env2[p_] = pyeval.evaluate(d_, {})
    try: pyeval.run_block(cp.body, env2); k2 = "ret"
    except pyeval.Raised as r_: k2 = "raise " + r_.cls
    except pyeval.Unsupported as u_: raise AnalysisError("call_obj_processors: outside the evaluated subset: %s" % u_)
    rep(k2 == "ret" and model2.get(".single") is R1, "C13.b", "replacement in a single-valued attribute", "a processor result for a single contained object is not stored back into the attribute (%s)" % k2)
    # the location handed to process() is the object's own
    rep(all(l == {"line": ("line-of", id(o)), "col": 1, "nchar": 2, "filename": "f"} for o, _n, l in log1 + log) and bool(log1), "C33.b", "process() receives the location of the processed object", "metamodel.process is not given get_location(<the processed object>) as its location arguments: an error raised by the processor cannot be located at the object", prop="C33")
    return inst, out
