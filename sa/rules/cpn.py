"""Model construction decided by evaluation (sa/pyeval.py): parse_tree_to_objgraph.process_node / process_match are
interpreted on a sample parse tree (non-terminals as lists with rule / position attributes, terminals as samples), with
sample meta-classes that distinguish own from inherited attributes and recording stand-ins for the meta-model.

   Model@0-100 { name='m'  items+=[Item@5-20{name='i1' flag?='on'} , Item@22-40{name='i2'}]  first=[Item]'i2'@61-63
                 refs+=[Item]'i1'@64-66 , 'i2'@68-70 'i1'@72-74 (optional separator)  kind=Kind(abstract: 'k' Val'v' B@83-90{name='b'})   val=Val(match: 'a' 'b')
                 box=Box@90-95{inner=Inner@90-95{}} }

   C05.g  every created object has its container as parent, the root has none; children hang in their attribute in input order
   C06.f  every object carries the start and end offset of the text its rule matched
   C08.e  every queued reference carries name, target class, start and end of its own text, the attribute's provider and
          match rule, and is queued for the object and attribute it was written in, in textual order; separators are skipped
   C02.f  = stores one value, ?= True, += every element in order; a second value for a single-valued attribute is a
          'Multiple assignments' TextXSemanticError
   C03.n  an abstract rule yields the object of its first non-match alternative; a match rule yields the joined,
          converted text
   C07.f  named objects are registered per class in the parser's instance table (the default provider without multi-meta-model
          support reads it)
   C32.f  a queued reference carries the grammar provider and the match rule of its attribute
   C34.i  with tool support every object is registered under its span, the innermost object for a shared span"""
import ast
from sa.util import *
from sa import pyeval
from sa.exprs import HS
M = "textx/model.py"
class TermS(HS):
    def __str__(s): return str(s.get(".value"))
class RuleS(HS):
    """a match expression: prints as its text (arpeggio's Match.__str__)"""
    def __str__(s): return str(s.get(".to_match"))
def r_processnode(root):
    out = []; inst = 0
    t = load(root, M)
    cds = {c.name: c for c in t.body if isinstance(c, ast.ClassDef)}
    pn = find(t, "parse_tree_to_objgraph.process_node"); p0 = pn.args.args[0].arg
    fns = {k: v for k, v in helper_functions(root, M, "parse_tree_to_objgraph.process_node").items() if k not in ("parse_tree_to_objgraph", "get_location", "get_model")}
    ct = load(root, "textx/const.py"); consts = {}
    for st in ct.body:
        if isinstance(st, ast.Assign) and isinstance(st.targets[0], ast.Name):
            try: consts[st.targets[0].id] = pyeval.evaluate(st.value, dict(consts))
            except (pyeval.Unsupported, pyeval.Raised): pass
    COMMON, ABSTRACT, MATCH = consts.get("RULE_COMMON"), consts.get("RULE_ABSTRACT"), consts.get("RULE_MATCH")
    MANY, ONE, OPT = consts.get("MULT_ONEORMORE"), consts.get("MULT_ONE"), consts.get("MULT_OPTIONAL")
    TERM = HS({".kind": "cls", ".__name__": "Terminal"})
    REM = HS({".kind": "cls", ".__name__": "RegExMatch"})
    def build(tools=False, double=False, regexp_group=False, falsy_part=False, plain_many_ref=False, ignore_case=False):
        prov = HS({".kind": "callable", ".tag": "rrel provider of the attribute"})
        def attr(name, cls, mult=ONE, cont=True, ref=False, boolasg=False, provider=None, mrule=None):
            return HS({".kind": "metaattr", ".name": name, ".cls": cls, ".mult": mult, ".cont": cont, ".ref": ref, ".bool_assignment": boolasg, ".scope_provider": provider, ".match_rule_name": mrule})
        def mcls(name, typ): return pyeval.ClassObj(name, {"_tx_type": typ, "_tx_attrs": {}, "_tx_fqn": name, "__name__": name})
        cModel, cItem, cKind, cB, cVal, cBox, cInner, cID, cKW = mcls("Model", COMMON), mcls("Item", COMMON), mcls("Kind", ABSTRACT), mcls("B", COMMON), mcls("Val", MATCH), mcls("Box", COMMON), mcls("Inner", COMMON), mcls("ID", MATCH), mcls("KW", MATCH)
        cKindM, cKindT, cFQN, cUser = mcls("KindM", ABSTRACT), mcls("KindT", ABSTRACT), mcls("FQN", MATCH), mcls("UserThing", COMMON)
        cUser.own["_tx_attrs"] = {"name": attr("name", cID)}
        user_class = pyeval.ClassObj("UserThing", {"_tx_type": COMMON, "_tx_attrs": cUser.own["_tx_attrs"], "_tx_fqn": "UserThing", "__name__": "UserThing", "_tx_obj_attrs": {}})       # a class supplied by the user (classes=[UserThing])
        cItem.own["_tx_attrs"] = {"name": attr("name", cID), "flag": attr("flag", cKW, OPT, boolasg=True), "parent": attr("parent", cItem, OPT, cont=False, ref=True)}      # the rule has an (unused) attribute called parent
        cB.own["_tx_attrs"] = {"name": attr("name", cID)}; cBox.own["_tx_attrs"] = {"inner": attr("inner", cInner)}
        cModel.own["_tx_attrs"] = {"name": attr("name", cID), "items": attr("items", cItem, MANY), "first": attr("first", cItem, ONE, cont=False, ref=True, provider=prov, mrule="ID"),
                                   "refs": attr("refs", cItem, MANY, cont=False, ref=True, provider=None, mrule="FQN"), "kind": attr("kind", cKind), "val": attr("val", cVal), "box": attr("box", cBox),
                                   "val2": attr("val2", cKindM), "val3": attr("val3", cKindT), "thing": attr("thing", cUser), "code": attr("code", cID), "code2": attr("code2", cID), "code0": attr("code0", cID), "kind2": attr("kind2", cKindM), "num": attr("num", cVal), "zval": attr("zval", cVal), "word": attr("word", cID)}
        def rule(name, cls=None, attr_name=None, root=True, sep=None): return HS({".kind": "rule", ".rule_name": name, ".root": root, "._tx_class": cls, "._attr_name": attr_name, ".sep": sep, ".suppress": False})
        def T(rule_name, value, pos): return TermS({".__class__": TERM, ".kind": "terminal", ".value": value, ".rule_name": rule_name, ".position": pos, ".position_end": pos + len(value), ".rule": rule(rule_name, {"ID": cID}.get(rule_name), root=False), ".suppress": False, ".flat_str": pyeval.PyFn(lambda: value)})
        def N(rule_name, pos, end, kids, cls=None, attr_name=None, sep=None): return pyeval.SList(kids, rule_name=rule_name, rule=rule(rule_name, cls, attr_name, sep=sep), position=pos, position_end=end, value="|".join(str(k) for k in kids), suppress=False, flat_str=pyeval.PyFn(lambda: "".join(str(k) if isinstance(k, TermS) else k.sample_attrs["flat_str"]() for k in kids)))
        def RT(rule_name, value, pos, groups, group1, pattern, lastindex=None):
            """a terminal matched by a regex with capture groups: <m> matched by /<(M)>/ under ignore_case"""
            t_ = T(rule_name, value, pos)
            t_[".rule"] = HS({".kind": "rule", ".__class__": REM, ".rule_name": rule_name, ".root": False, "._tx_class": cID, ".to_match": pattern, ".to_match_regex": pattern, ".ignore_case": True, ".regex": {".groups": groups, ".pattern": pattern}, ".suppress": False, ".sep": None})
            t_[".extra_info"] = {".group": pyeval.PyFn(lambda n=0: {0: value, 1: group1}.get(n)), ".start": pyeval.PyFn(lambda n=0: pos + (1 if n else 0)), ".groups": pyeval.PyFn(lambda: (group1,)), ".lastindex": lastindex if lastindex is not None else (groups or None), ".re": {".groups": groups, ".pattern": pattern}, ".string": "x" * pos + value}
            return t_
        def A(op, attr_name, pos, end, kids, sep=None): return N("__asgn_" + op, pos, end, kids, attr_name=attr_name, sep=sep)
        item1 = N("Item", 5, 20, [A("plain", "name", 6, 8, [T("ID", "i1", 6)]), A("optional", "flag", 9, 11, [T("KW", "on", 9)])], cItem)
        item2 = N("Item", 22, 40, [A("plain", "name", 23, 25, [T("ID", "i2", 23)])], cItem)
        kids = [A("plain", "name", 0, 1, [T("ID", "m", 0)]),
                A("oneormore", "items", 5, 60, [item1, T("sep", ",", 21), item2]),
                A("plain", "first", 61, 63, [T("ID", "i2", 61)]),
                A("oneormore", "refs", 64, 80, [T("FQN", "i1", 64), T("sep", ",", 67), T("FQN", "i2", 68), T("FQN", "i1", 72),     # the separator /,?/ matched nothing before the third value
                                                N("FQN", 75, 80, [T("ID", "p", 75), T("KW", ".", 77), T("ID", "q", 79)], cFQN)], sep=rule("sep", root=False)),                     # 'p . q': a match rule of several tokens, blanks between them
                A("plain", "kind", 81, 90, [N("Kind", 81, 90, [T("KW", "k", 81), N("Val", 82, 83, [T("STRING", "v", 82)], cVal), N("B", 83, 90, [A("plain", "name", 84, 85, [T("ID", "b", 84)])], cB)], cKind)]),
                A("plain", "val", 91, 95, [N("Val", 91, 95, [T("STRING", "a", 91), T("STRING", "b", 93)], cVal)]),
                A("plain", "box", 90, 95, [N("Box", 90, 95, [A("plain", "inner", 90, 95, [N("Inner", 90, 95, [], cInner)])], cBox)])]
        kids += [A("plain", "val2", 96, 100, [N("KindM", 96, 100, [T("KW", "k", 96), N("Val", 98, 100, [T("STRING", "c", 98), T("STRING", "d", 99)], cVal)], cKindM)]),        # abstract rule, only a match rule referenced
                 A("plain", "val3", 101, 104, [N("KindT", 101, 104, [T("KW", "k", 101), T("KW", "l", 103)], cKindT)]),                                                          # abstract rule, only plain matches
                 A("plain", "thing", 105, 115, [N("UserThing", 105, 115, [A("plain", "name", 106, 108, [T("ID", "ut", 106)])], cUser)]),
                 A("plain", "code", 116, 119, [RT("CODE", "<m>", 116, 1, "m", "<(M)>")]),
                 A("plain", "code2", 120, 123, [RT("CODE2", "<n>", 120, 2, "n", "<(N)>|\\[(N)\\]", lastindex=1)]),          # two groups in the pattern, one took part in this match
                 A("plain", "code0", 124, 127, [RT("CODE0", "<o>", 124, 0, None, "<O>")]),
                 A("plain", "kind2", 128, 129, [N("KindM", 128, 129, [N("Val", 128, 128, [T("STRING", "w", 128)], cVal),                      # abstract alternative: a match rule, then an abstract rule, then a common rule
                                                                    N("Kind", 128, 129, [N("B", 128, 129, [A("plain", "name", 128, 129, [T("ID", "b2", 128)])], cB)], cKind),
                                                                    N("Item", 129, 129, [A("plain", "name", 129, 129, [T("ID", "i9", 129)])], cItem)], cKindM)])]
        kids.append(A("plain", "num", 131, 135, [N("Val", 131, 135, [RT("STRICTFLOAT", "-1.5", 131, 3, "1.5", "([+-]?((\\d+\\.\\d*)|(\\.\\d+)))")], cVal)]))       # a match rule made of one regex token with several groups
        if falsy_part: kids.append(A("plain", "zval", 136, 139, [N("Val", 136, 139, [T("STRING", "x", 136), T("INT", "0", 137), T("STRING", "y", 138)], cVal)]))       # a match rule one of whose parts converts to a falsy value (0)
        if ignore_case:
            # a literal matched case-insensitively: the model holds the text as the user wrote it ('Begin'), not the grammar's spelling
            t_ = T("ID", "Begin", 136); t_[".rule"] = RuleS({".kind": "rule", ".rule_name": "ID", ".root": False, "._tx_class": cID, ".to_match": "begin", ".ignore_case": True, ".suppress": False, ".sep": None})
            kids.append(A("plain", "word", 136, 141, [t_]))
            t2_ = T("KW", "END", 142); t2_[".rule"] = RuleS({".kind": "rule", ".rule_name": "KW", ".root": False, "._tx_class": cKW, ".to_match": "end", ".ignore_case": True, ".suppress": False, ".sep": None})
            kids.append(A("plain", "zval", 142, 145, [N("Val", 142, 145, [t2_], cVal)]))            # the same inside a match rule
        if plain_many_ref: kids.append(A("plain", "refs", 136, 138, [T("FQN", "i2", 136)]))        # a reference assigned with '=' to a many-valued attribute:  ('uses' refs=[Item|FQN])*
        if double: kids.append(A("plain", "name", 136, 139, [T("ID", "again", 136)]))
        tree = N("Model", 0, 140, kids, cModel)
        processed = []
        def init_attrs(o):
            for a in o.cls.lookup("_tx_attrs")[1].values(): o.own[a[".name"]] = [] if a[".mult"] == MANY else (False if a[".bool_assignment"] else None)
        mm = HS({".kind": "metamodel", ".user_classes": {"UserThing": user_class}, ".textx_tools_support": tools, ".use_regexp_group": regexp_group, ".debug": False, ".ignore_case": ignore_case, ".autokwd": False, ".skipws": True, ".ws": " ", ".auto_init_attributes": True, "._init_obj_attrs": pyeval.PyFn(init_attrs),
                 ".process": pyeval.PyFn(lambda value, typ, filename=None, col=None, line=None, nchar=None, **k: (processed.append((value, typ, filename, line, col)), ("converted:" + value) if typ == "Val" else (int(value) if typ == "INT" else value))[1])})
        parser = HS({".kind": "parser", ".debug": False, ".metamodel": mm, ".file_name": "model.file", ".position": 143, ".input": "x" * 140 + "   ", "._inst_stack": [], "._crossrefs": [], "._instances": {}, "._user_obj_ids": [], "._user_class_inst": [],
                     ".pos_to_linecol": pyeval.PyFn(lambda pos: (("line", pos), ("col", pos))), ".dprint": pyeval.PyFn(lambda *a: None)})
        env = dict(consts)
        env.update({"__classdefs__": cds, "__functions__": fns, "__module__": t, "__maxdepth__": 30, "parser": parser, "metamodel": mm, "pos_rule_dict": {}, "pos_crossref_list": [], "file_name": "model.file", "Terminal": TERM, "RegExMatch": REM, "re": pyeval.TRUSTED["re"],
                    "TextXSemanticError": pyeval.PyFn(lambda *a, **k: {".cls": "TextXSemanticError", ".kw": k, ".args": a}), "TextXSyntaxError": pyeval.PyFn(lambda *a, **k: {".cls": "TextXSyntaxError"}),
                    "__classes__": {"RegExMatch": lambda v: isinstance(v, dict) and v.get(".__class__") is REM, "Terminal": lambda v: isinstance(v, TermS), "NonTerminal": lambda v: isinstance(v, pyeval.SList), "list": lambda v: isinstance(v, list) and not isinstance(v, pyeval.SList) or isinstance(v, list), "str": lambda v: isinstance(v, str)},
                    "__keep__": tuple(consts) + ("parser", "metamodel", "pos_rule_dict", "pos_crossref_list", "file_name", "Terminal", "RegExMatch"), p0: tree})
        return env, parser, mm, dict(Model=cModel, Item=cItem, B=cB, Box=cBox, Inner=cInner, Kind=cKind, User=user_class), prov, processed
    def run(env):
        try: return ("ret", pyeval.run_block(pn.body, env))
        except pyeval.Raised as r_: return ("raise", r_)
        except pyeval.Unsupported as u_: raise AnalysisError("process_node: outside the evaluated subset: %s" % u_)
    W = "parse_tree_to_objgraph.process_node"
    def rep(prop, clause, what, ok, msg):
        nonlocal inst
        inst += 1
        ob(prop, clause, M, W, what, ok)
        if not ok: out.append(Finding(prop, clause, M, W, what, msg))
    env, parser, mm, C, prov, processed = build()
    k, model = run(env)
    rep("C05", "C05.g", "the sample tree is built", k == "ret" and isinstance(model, pyeval.InstObj) and model.cls is C["Model"], "building the model of the sample parse tree %s" % ("raises %s" % model.cls if k == "raise" else "does not return the Model object"))
    if not (k == "ret" and isinstance(model, pyeval.InstObj)):
        for pr_, cl_ in (("C03", "C03.n"), ("C02", "C02.f"), ("C06", "C06.f"), ("C08", "C08.e"), ("C13", "C13.h"), ("C14", "C14.m"), ("C07", "C07.f"), ("C32", "C32.f")):       # none of these can hold when the model is not built
            rep(pr_, cl_, "the sample tree is built", False, "building the model of the sample parse tree %s" % ("raises %s" % model.cls if k == "raise" else "does not return the Model object"))
        return inst, out
    g = lambda o, n: o.own.get(n) if isinstance(o, pyeval.InstObj) else None
    items = g(model, "items") or []; kind = g(model, "kind"); box = g(model, "box"); inner = g(box, "inner")
    objs_ok = len(items) == 2 and all(isinstance(x, pyeval.InstObj) and x.cls is C["Item"] for x in items) and isinstance(kind, pyeval.InstObj) and isinstance(box, pyeval.InstObj) and isinstance(inner, pyeval.InstObj)
    rep("C02", "C02.f", "contained objects are stored in their attributes, list elements in input order, separators skipped", objs_ok and [g(x, "name") for x in items] == ["i1", "i2"] and g(model, "name") == "m" and g(items[0], "flag") is True and g(items[1], "flag") is False,
        "after building the sample model: items = %s (documented the two Item objects i1, i2), name = %r, flags = %s (documented True for the item written with ?=, False for the other)" % ([g(x, "name") if isinstance(x, pyeval.InstObj) else x for x in items], g(model, "name"), [g(x, "flag") for x in items if isinstance(x, pyeval.InstObj)]))
    if objs_ok:
        parents = [("item i1", items[0], model), ("item i2", items[1], model), ("kind", kind, model), ("box", box, model), ("inner", inner, box)]
        badp = [n for n, o, p_ in parents if o.own.get("parent") is not p_]
        rep("C05", "C05.g", "every contained object has its container as parent, the model has none", not badp and "parent" not in model.own, "parent links after building the sample model: wrong for %s%s; documented: the object whose attribute contains it (the model itself has no parent)" % (badp, ", the root has a parent" if "parent" in model.own else ""))
        spans = [("model", model, 0, 140), ("item i1", items[0], 5, 20), ("item i2", items[1], 22, 40), ("kind object", kind, 83, 90), ("box", box, 90, 95), ("inner", inner, 90, 95)]
        bads = [(n, o.own.get("_tx_position"), o.own.get("_tx_position_end")) for n, o, a, b in spans if (o.own.get("_tx_position"), o.own.get("_tx_position_end")) != (a, b)]
        rep("C06", "C06.f", "objects carry the span of the text their rule matched", not bads, "spans after building the sample model: %s; documented %s" % (bads, [(n, a, b) for n, _o, a, b in spans if any(n == x[0] for x in bads)]))
        rep("C03", "C03.n", "an abstract rule yields the object of its first non-match alternative", kind.cls is C["B"] and g(kind, "name") == "b", "the value of an attribute of abstract type Kind (matched as 'k', the match rule Val and a B object) is %s; documented: the B object (the first referenced rule that is not a match rule)" % (kind.cls.name if isinstance(kind, pyeval.InstObj) else kind))
    envz, _pz, _mz, _Cz, _prz, _procz = build(falsy_part=True)
    kz, mz = run(envz)
    for pr_ in ("C03", "C02", "C04"):
        rep(pr_, "C03.n", "a match rule keeps a part whose converted value is falsy", kz == "ret" and g(mz, "zval") == "converted:x0y", "the value of an attribute of the match rule Val matched as 'x' '0' 'y' (the middle part an INT, converted to 0) is %s; documented: the text of every part joined ('x0y'), converted once as Val" % (("%r" % (g(mz, "zval"),)) if kz == "ret" else "not built: raises %s" % mz.cls))
    kind2 = g(model, "kind2")
    rep("C03", "C03.n", "the first referenced rule that is not a match rule may itself be abstract; later ones are not built", isinstance(kind2, pyeval.InstObj) and kind2.cls is C["B"] and g(kind2, "name") == "b2" and "i9" not in parser["._instances"].get(id(C["Item"]), {}),
        "the value of an attribute of abstract type matched as (match rule Val, abstract rule Kind -> B 'b2', common rule Item 'i9') is %s; documented: the B object b2 that the abstract rule Kind yields (the first referenced rule that is not a match rule), nothing else is built" % ((kind2.cls.name + " " + str(g(kind2, "name"))) if isinstance(kind2, pyeval.InstObj) else repr(kind2)))
    rep("C03", "C03.n", "a match rule yields the joined, converted text", g(model, "val") == "converted:ab", "the value of an attribute of the match rule Val (matched as 'a' 'b') is %r; documented: the two parts joined and converted once as Val ('converted:ab')" % (g(model, "val"),))
    rep("C03", "C03.n", "an abstract rule that matched only a match rule / only plain matches yields the converted value / the joined text", g(model, "val2") == "converted:cd" and g(model, "val3") == "kl",
        "the attributes of abstract type matched as ('k' then the match rule Val 'c' 'd') and ('k' 'l') hold %r and %r; documented 'converted:cd' (the match rule's value, converted once) and 'kl' (the matched texts joined)" % (g(model, "val2"), g(model, "val3")))
    thing = g(model, "thing"); U = C["User"]
    rep("C14", "C14.m", "an object of a user class is allocated from the user's class without running __init__, registered for initialisation after the model is built", isinstance(thing, pyeval.InstObj) and thing.cls is U and parser["._user_class_inst"] == [thing] and parser["._user_obj_ids"] == [id(thing)] and id(thing) in U.own["_tx_obj_attrs"] and thing.own.get("parent") is model and g(thing, "name") == "ut",
        "the object matched by the rule of the user class UserThing is %s; registered for __init__: %s, attribute store reserved: %s, parent set: %s; documented: an instance of the user's class, allocated without __init__, queued once for initialisation, with its attributes collected and its parent set" % (thing.cls.name if isinstance(thing, pyeval.InstObj) else thing, parser["._user_class_inst"] == [thing], isinstance(thing, pyeval.InstObj) and id(thing) in U.own["_tx_obj_attrs"], isinstance(thing, pyeval.InstObj) and thing.own.get("parent") is model))
    rep("C13", "C13.h", "every match is converted once under the name of its own rule, with the file and position of the match", ("m", "ID", "model.file", ("line", 0), ("col", 0)) in processed and ("ab", "Val", "model.file", ("line", 91), ("col", 91)) in processed and ("<m>", "CODE", "model.file", ("line", 116), ("col", 116)) in processed and len([x for x in processed if x[1] == "Val"]) == 3
        and ("b", "STRING", "model.file", ("line", 93), ("col", 93)) in processed and ("q", "ID", "model.file", ("line", 79), ("col", 79)) in processed and ("p.q", "FQN", "model.file", ("line", 75), ("col", 75)) in processed,
        "the conversions requested while building the sample model are %s; documented: one per match under its rule name with file, line and col of the match (e.g. 'm' as ID at 0, 'ab' as Val at 91 and its part 'b' as STRING at 93, 'p.q' as FQN at 75 and its part 'q' as ID at 79, '<m>' as CODE at 116)" % ([x for x in processed if x[1] in ("Val", "CODE", "STRING", "FQN") or x[0] in ("m", "q")][:12],))
    rep("C01", "C01.k", "without use_regexp_group every regex match is taken whole", g(model, "code") == "<m>" and g(model, "code2") == "<n>" and g(model, "code0") == "<o>" and g(model, "num") == "converted:-1.5", "without use_regexp_group the regex matches '<m>', '<n>', '<o>' give %r, %r, %r; documented: the whole match" % (g(model, "code"), g(model, "code2"), g(model, "code0")))
    xr = parser["._crossrefs"]
    def xd(x): return (x[2].get(".obj_name"), x[2].get(".position"), x[2].get(".position_end"), x[2].get(".cls") is C["Item"], x[1].get(".name") if isinstance(x[1], dict) else None, x[0] is model) if isinstance(x, (tuple, list)) and len(x) == 3 and isinstance(x[2], dict) else x
    want = [("i2", 61, 63, True, "first", True), ("i1", 64, 66, True, "refs", True), ("i2", 68, 70, True, "refs", True), ("i1", 72, 74, True, "refs", True), ("p.q", 75, 80, True, "refs", True)]
    rep("C08", "C08.e", "references are queued with their own name, target class and span, for their object and attribute, in textual order", [xd(x) for x in xr] == want,
        "the references queued for the sample model are %s; documented %s (name, start, end of the reference's own text, target class Item, attribute, queued for the model object)" % ([xd(x) for x in xr], want))
    if len(xr) == 5 and all(isinstance(x[2], dict) for x in xr):
        rep("C32", "C32.f", "a queued reference carries the provider and match rule of its attribute", xr[0][2].get(".scope_provider") is prov and xr[0][2].get(".match_rule_name") == "ID" and xr[1][2].get(".scope_provider") is None and xr[1][2].get(".match_rule_name") == "FQN",
            "the reference of attribute first carries provider %s and match rule %r, the ones of refs %s / %r; documented: the grammar RREL provider and match rule ID of first, no provider and match rule FQN for refs" % ("of the attribute" if xr[0][2].get(".scope_provider") is prov else xr[0][2].get(".scope_provider"), xr[0][2].get(".match_rule_name"), xr[1][2].get(".scope_provider"), xr[1][2].get(".match_rule_name")))
    envi, _pi, _mi, _Ci, _pri, _proci = build(ignore_case=True)
    ki, mi = run(envi)
    for prp in ("C20", "C02"):
        rep(prp, "C20.f", "under ignore_case the model holds the text as written", ki == "ret" and g(mi, "word") == "Begin" and g(mi, "zval") == "converted:END", "with ignore_case on, the text 'Begin' matched by the literal 'begin' is stored as %s and the text 'END' matched by the literal 'end' inside the match rule Val as %s; documented: 'Begin' and the conversion of 'END' - case-insensitive matching never rewrites the matched text" % ((repr(g(mi, "word")), repr(g(mi, "zval"))) if ki == "ret" else "nothing: building raises %s" % mi.cls))
    envr, pr_, _mr, _Cr, _prr, _procr = build(plain_many_ref=True)
    kr, mr = run(envr)
    xrr = pr_["._crossrefs"]
    okr = kr == "ret" and len(xrr) == 6 and xd(xrr[5])[:3] == ("i2", 136, 138) and isinstance(xrr[5][1], dict) and xrr[5][1].get(".name") == "refs" and xrr[5][0] is mr and g(mr, "refs") == []
    for prp in ("C07", "C02", "C08"):
        rep(prp, "C08.e", "a reference assigned with '=' to a many-valued attribute is queued like every other reference", okr, "a reference written  refs=[Item|FQN]  after  refs+=...  (plain assignment to a many-valued attribute) %s: %d references are queued (documented 6, the last one i2 at 136..138 for attribute refs of the model) and the attribute holds %r before resolution (documented []: names are never stored in place of objects)" % ("is built" if kr == "ret" else "raises %s" % mr.cls, len(xrr), g(mr, "refs") if kr == "ret" else None))
    rep("C05", "C05.g", "single-valued reference attributes stay unset until resolution", g(model, "first") is None and g(model, "refs") == [], "before resolution the reference attributes hold %r / %r; documented None / [] (the references are queued, not stored)" % (g(model, "first"), g(model, "refs")))
    tab = parser["._instances"].get(id(C["Item"]), {})
    rep("C07", "C07.f", "named objects are registered per class", isinstance(tab, dict) and set(tab) == {"i1", "i2"} and (not objs_ok or (tab["i1"] is items[0] and tab["i2"] is items[1])), "the parser's table of named Item objects holds %s; documented i1 and i2 (the default scope provider without multi-meta-model support looks names up there)" % sorted(tab))
    # second value for a single-valued attribute
    env, parser, mm, C, prov, processed = build(double=True)
    k, v = run(env)
    e = v.value if k == "raise" and isinstance(getattr(v, "value", None), dict) else None
    rep("C02", "C02.f", "a second value for a single-valued attribute is rejected", k == "raise" and v.cls == "TextXSemanticError" and (e is None or e.get(".kw", {}).get("err_type") == consts.get("MULT_ASSIGN_ERROR")), "a second assignment name='again' to the single-valued attribute name %s; documented: TextXSemanticError 'Multiple assignments'" % ("raises %s" % v.cls if k == "raise" else "is accepted (the first value is lost)"))
    # tool support
    env, parser, mm, C, prov, processed = build(tools=True)
    k, model = run(env)
    prd = env["pos_rule_dict"]
    if k == "ret" and isinstance(model, pyeval.InstObj):
        box = model.own.get("box"); inner = box.own.get("inner") if isinstance(box, pyeval.InstObj) else None
        rep("C05", "C05.g", "with tool support the containment is the same", isinstance(box, pyeval.InstObj) and box.cls is C["Box"] and isinstance(inner, pyeval.InstObj) and inner.cls is C["Inner"] and inner.own.get("parent") is box and box.own.get("parent") is model,
            "with tool support the attribute box of the sample model holds %s whose inner is %s; documented: the Box object containing the Inner object, as without tool support (the objects share the span 90-95)" % (box.cls.name if isinstance(box, pyeval.InstObj) else box, inner.cls.name if isinstance(inner, pyeval.InstObj) else inner))
        rep("C34", "C34.i", "every object is registered under its span, the innermost one for a shared span", set(prd) == {(0, 140), (5, 20), (22, 40), (83, 90), (90, 95), (105, 115), (128, 129)} and prd.get((90, 95)) is inner and prd.get((0, 140)) is model,
            "with tool support the span map of the sample model has the spans %s and maps 90-95 (shared by Box and the Inner object it contains) to %s; documented: one entry per object span, the innermost object for a shared span" % (sorted(prd), "Inner" if prd.get((90, 95)) is inner else "Box" if prd.get((90, 95)) is box else prd.get((90, 95))))
    else: rep("C34", "C34.i", "the sample tree is built with tool support", False, "with tool support building the sample model %s" % ("raises %s" % model.cls if k == "raise" else "fails"))
    # use_regexp_group
    env, parser, mm, C, prov, processed = build(regexp_group=True)
    k, model = run(env)
    if k == "ret" and isinstance(model, pyeval.InstObj):
        rep("C01", "C01.k", "use_regexp_group: a regex with exactly one group yields the group, converted under the rule's name", model.own.get("code") == "m" and ("m", "CODE", "model.file", ("line", 116), ("col", 116)) in processed and model.own.get("name") == "m" and model.own.get("val") == "converted:ab" and model.own.get("code2") == "<n>" and model.own.get("code0") == "<o>" and model.own.get("num") == "converted:-1.5",
            "with use_regexp_group the match '<m>' of the one-group regex rule CODE gives %r (conversions requested: %s), the matches '<n>' of a two-group regex and '<o>' of a regex without groups give %r and %r; documented: the group text 'm', converted once as CODE with the position of the match; the whole match for every other regex (the choice depends on the pattern, not on the individual match), also inside a match rule (num = %r, documented 'converted:-1.5')" % (model.own.get("code"), [x for x in processed if x[1] == "CODE"], model.own.get("code2"), model.own.get("code0"), model.own.get("num")))
    else: rep("C01", "C01.k", "the sample tree is built with use_regexp_group", False, "with use_regexp_group building the sample model %s" % ("raises %s" % model.cls if k == "raise" else "fails"))
    return inst, out
