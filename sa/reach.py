"""A5 prototype: reaching definitions over the CFG + 'normalised key' query."""
import ast, collections
from sa.cfg import CFG, find_fn
def targets_of(st):
    """names (simple variables) defined by a statement node"""
    out = []
    def t(x):
        if isinstance(x, ast.Name): out.append(x.id)
        elif isinstance(x, (ast.Tuple, ast.List)):
            for e in x.elts: t(e)
        elif isinstance(x, ast.Starred): t(x.value)
    if isinstance(st, ast.Assign):
        for x in st.targets: t(x)
    elif isinstance(st, (ast.AugAssign, ast.AnnAssign)): t(st.target)
    elif isinstance(st, (ast.For, ast.AsyncFor)): t(st.target)
    elif isinstance(st, ast.With):
        for i in st.items:
            if i.optional_vars is not None: t(i.optional_vars)
    elif isinstance(st, (ast.Import, ast.ImportFrom)):
        for a in st.names: out.append((a.asname or a.name).split(".")[0])
    elif isinstance(st, (ast.FunctionDef, ast.ClassDef)): out.append(st.name)
    elif isinstance(st, ast.ExceptHandler) and st.name: out.append(st.name)
    return out
class Reaching:
    def __init__(s, cfg, fn):
        s.cfg = cfg
        # definitions: (var, node_id) ; params are defs at entry
        s.defs_at = collections.defaultdict(list)
        params = [a.arg for a in fn.args.posonlyargs + fn.args.args + fn.args.kwonlyargs]
        if fn.args.vararg: params.append(fn.args.vararg.arg)
        if fn.args.kwarg: params.append(fn.args.kwarg.arg)
        for p in params: s.defs_at[cfg.entry.id].append(p)
        for n in cfg.nodes:
            a = n.ast
            if a is None: continue
            if n.kind == "loop" and isinstance(getattr(a, "_parent", None), ast.For): pass
            if n.kind in ("stmt", "def", "with", "handler"):
                for v in targets_of(a): s.defs_at[n.id].append(v)
            elif n.kind == "loop" and isinstance(getattr(a, "_parent", None), (ast.For, ast.AsyncFor)) and getattr(a, "_parent").iter is a:
                for v in targets_of(getattr(a, "_parent")): s.defs_at[n.id].append(v)      # the loop header binds the target on every iteration
        # For-loop targets: the loop header node's ast is the iter expr; find the For via parent pointer
        s.IN = {n.id: set() for n in cfg.nodes}; s.OUT = {n.id: set() for n in cfg.nodes}
        preds = collections.defaultdict(list)
        for n in cfg.nodes:
            for k, m in n.succ: preds[m.id].append(n.id)
        work = [n.id for n in cfg.nodes]
        while work:
            i = work.pop()
            inn = set().union(*[s.OUT[p] for p in preds[i]]) if preds[i] else set()
            gen = {(v, i) for v in s.defs_at[i]}; kill_vars = {v for v in s.defs_at[i]}
            out = {d for d in inn if d[0] not in kill_vars} | gen
            if out != s.OUT[i] or inn != s.IN[i]:
                s.IN[i], s.OUT[i] = inn, out
                for k, m in cfg.nodes[i].succ: work.append(m.id)
    def defs_of(s, node, var):
        return sorted(d[1] for d in s.IN[node.id] if d[0] == var)
def attach_for_targets(cfg):
    """loop header nodes hold st.iter; register the For target as a def at the header"""
    for n in cfg.nodes:
        if n.kind == "loop" and n.ast is not None:
            par = getattr(n.ast, "_parent", None)
def is_lowered(expr, rd, node, cfg, depth=0):
    """expr evaluates to a lower()-normalised string on all reaching definitions (or is a lower-case constant)"""
    if depth > 6: return False
    if isinstance(expr, ast.Constant) and isinstance(expr.value, str): return expr.value == expr.value.lower()
    if isinstance(expr, ast.Call) and isinstance(expr.func, ast.Attribute) and expr.func.attr in ("lower", "casefold") and not expr.args: return True
    if isinstance(expr, ast.Name):
        defs = rd.defs_of(node, expr.id)
        if not defs: return False
        ok = True
        for d in defs:
            dn = cfg.nodes[d]
            if dn.kind == "entry": return False          # raw parameter reaches
            a = dn.ast
            if isinstance(a, ast.Assign) and len(a.targets) == 1 and isinstance(a.targets[0], ast.Name):
                ok = ok and is_lowered(a.value, rd, dn, cfg, depth + 1)
            else: ok = False
        return ok
    return False
if __name__ == "__main__":
    t = ast.parse(open("/repo/textx/registration.py").read())
    for p in ast.walk(t):
        for c in ast.iter_child_nodes(p): c._parent = p
    REG = {"languages", "generators", "metamodels"}
    total = bad = 0
    for fn in [n for n in t.body if isinstance(n, ast.FunctionDef)]:
        cfg = CFG(fn); rd = Reaching(cfg, fn)
        # alias tracking: names assigned from generators[...] / generators.setdefault(...) are second-level registries
        second = set()
        for n in cfg.nodes:
            a = n.ast
            if isinstance(a, ast.Assign) and isinstance(a.targets[0], ast.Name):
                v = a.value
                if (isinstance(v, ast.Subscript) and isinstance(v.value, ast.Name) and v.value.id in REG) or \
                   (isinstance(v, ast.Call) and isinstance(v.func, ast.Attribute) and v.func.attr in ("setdefault", "get") and isinstance(v.func.value, ast.Name) and v.func.value.id in REG):
                    second.add(a.targets[0].id)
        for n in cfg.nodes:
            if n.ast is None: continue
            for e in ast.walk(n.ast):
                key = None
                if isinstance(e, ast.Subscript) and isinstance(e.value, ast.Name) and e.value.id in REG | second: key = e.slice
                elif isinstance(e, ast.Compare) and len(e.ops) == 1 and isinstance(e.ops[0], (ast.In, ast.NotIn)) and isinstance(e.comparators[0], ast.Name) and e.comparators[0].id in REG | second: key = e.left
                elif isinstance(e, ast.Call) and isinstance(e.func, ast.Attribute) and e.func.attr in ("setdefault", "get", "pop") and isinstance(e.func.value, ast.Name) and e.func.value.id in REG | second: key = e.args[0]
                if key is not None:
                    total += 1; ok = is_lowered(key, rd, n, cfg)
                    if not ok: bad += 1
                    print("%-28s %-45s %s" % (fn.name, ast.unparse(e)[:45], "normalised" if ok else "NOT NORMALISED"))
    print("sites", total, "violations", bad)
