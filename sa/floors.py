"""minimum number of rule instances per property (about 80% of the count confirmed on the tree of the build phase);
fewer instances mean an anchor vanished or a rule matches nothing -> analysis error (exit 2), never a vacuous pass"""
FLOORS = {'C01': 28, 'C02': 30, 'C03': 37, 'C04': 11, 'C05': 8, 'C06': 6, 'C07': 12, 'C08': 6, 'C09': 8, 'C10': 8, 'C11': 15, 'C12': 14, 'C13': 2, 'C14': 14, 'C15': 15, 'C16': 7, 'C17': 7, 'C18': 7, 'C19': 2, 'C20': 7, 'C21': 6, 'C22': 8, 'C23': 34, 'C24': 35, 'C25': 7, 'C26': 24, 'C27': 24, 'C28': 13, 'C29': 62, 'C30': 6, 'C31': 6, 'C32': 3, 'C33': 14, 'C34': 4}
