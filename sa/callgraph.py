"""A2 prototype: call resolution with statistics."""
import ast, builtins, collections
from sa.source import Index
BUILTINS = set(dir(builtins))
class CallGraph:
    def __init__(s, ix):
        s.ix = ix; s.edges = collections.defaultdict(set); s.sites = []   # (caller Func, Call node, kind, targets)
        s.stats = collections.Counter()
        for m in ix.modules.values():
            if not m.name.startswith("textx"): continue
            for f in m.funcs.values(): s._scan(f)
    def _own_nodes(s, fn):
        """nodes of fn body excluding nested defs/classes"""
        stack = list(ast.iter_child_nodes(fn.node))
        while stack:
            n = stack.pop()
            if isinstance(n, (ast.FunctionDef, ast.AsyncFunctionDef, ast.ClassDef)): continue
            yield n
            stack.extend(ast.iter_child_nodes(n))
    def _lexical(s, f, name):
        """resolve bare name: nested funcs in enclosing scopes, module funcs/classes, imports"""
        cur = f
        while cur is not None:
            for q, g in f.module.funcs.items():
                if g.parent is cur and q.split(".")[-1] == name and g.cls is None: return ("func", [g])
            cur = cur.parent
        m = f.module
        if name in m.funcs and m.funcs[name].cls is None: return ("func", [m.funcs[name]])
        if name in m.classes: return ("class", [m.classes[name]])
        # class nested in enclosing function (e.g. TextXModelParser)
        for q, c in m.classes.items():
            if q.split(".")[-1] == name: return ("class", [c])
        if name in m.imports:
            tm, attr = s.ix.resolve_import(m, name)
            if tm is not None and attr is not None:
                if attr in tm.funcs: return ("func", [tm.funcs[attr]])
                if attr in tm.classes: return ("class", [tm.classes[attr]])
                return ("extvar", [])
            return ("external", [])
        if name in BUILTINS: return ("builtin", [])
        return (None, [])
    def _scan(s, f):
        params = {a.arg for a in f.node.args.args + f.node.args.kwonlyargs} | ({f.node.args.vararg.arg} if f.node.args.vararg else set()) | ({f.node.args.kwarg.arg} if f.node.args.kwarg else set())
        for n in s._own_nodes(f):
            if not isinstance(n, ast.Call): continue
            fn = n.func; kind, targets = None, []
            if isinstance(fn, ast.Name):
                kind, targets = s._lexical(f, fn.id)
                if kind is None:
                    kind = "param-callable" if fn.id in params or s._is_free_param(f, fn.id) else "local-callable"
            elif isinstance(fn, ast.Attribute):
                meth = fn.attr
                base = fn.value
                if isinstance(base, ast.Name) and base.id == "self" and f.cls is not None:
                    t = [g for g in f.module.funcs.values() if g.cls is f.cls and g.node.name == meth]
                    if t: kind, targets = "self", t
                if kind is None and isinstance(base, ast.Name) and base.id in f.module.imports:
                    tm, attr = s.ix.resolve_import(f.module, base.id)
                    if tm is not None and attr is None:
                        if meth in tm.funcs: kind, targets = "modfunc", [tm.funcs[meth]]
                        elif meth in tm.classes: kind, targets = "class", [tm.classes[meth]]
                        else: kind = "external"
                    elif tm is None: kind = "external"
                if kind is None:
                    cands = s.ix.methods_named(meth, ("textx",))
                    if len(cands) == 1: kind, targets = "unique-method", cands
                    elif len(cands) > 1: kind, targets = "ambiguous-method", cands
                    else:
                        arp = s.ix.methods_named(meth, ("arpeggio",))
                        kind = "arpeggio-method" if arp else "foreign-method"
                        targets = arp
            else:
                kind = "computed"
            s.stats[kind] += 1; s.sites.append((f, n, kind, targets))
            for t in targets:
                if hasattr(t, "qual"): s.edges[f.qual].add(t.qual)
    def _is_free_param(s, f, name):
        cur = f.parent
        while cur is not None:
            a = cur.node.args
            if name in {x.arg for x in a.args + a.kwonlyargs}: return True
            cur = cur.parent
        return False
if __name__ == "__main__":
    ix = Index(); cg = CallGraph(ix)
    tot = sum(cg.stats.values()); print(tot, dict(cg.stats))
    import itertools
    for kind in ("foreign-method", "local-callable", "computed", "ambiguous-method"):
        ex = collections.Counter(ast.unparse(n.func)[:50] for f, n, k, t in cg.sites if k == kind)
        print(kind, ex.most_common(25))
