"""A1 prototype: source index — modules, scopes, qualified names, imports."""
import ast, hashlib, importlib.util, os, symtable
class Func:
    def __init__(s, qual, node, module, cls, parent): s.qual, s.node, s.module, s.cls, s.parent = qual, node, module, cls, parent
    def __repr__(s): return "<Func %s>" % s.qual
class Module:
    def __init__(s, name, path):
        s.name, s.path = name, path
        s.text = open(path, encoding="utf-8").read(); s.digest = hashlib.sha256(s.text.encode()).hexdigest()
        s.tree = ast.parse(s.text, path)
        for p in ast.walk(s.tree):
            for c in ast.iter_child_nodes(p): c._parent = p
        s.imports = {}      # local name -> (module, attr|None)   module-level
        s.funcs = {}        # qual -> Func
        s.classes = {}      # qual -> ClassDef
class Index:
    def __init__(s, repo="/repo", pkg="textx", with_arpeggio=True):
        s.repo, s.modules = repo, {}
        root = os.path.join(repo, pkg)
        for d, _, fs in os.walk(root):
            for f in sorted(fs):
                if f.endswith(".py"):
                    p = os.path.join(d, f); rel = os.path.relpath(p, repo)[:-3].replace(os.sep, ".")
                    if rel.endswith(".__init__"): rel = rel[:-9]
                    s.add(rel, p)
        if with_arpeggio:
            spec = importlib.util.find_spec("arpeggio")
            s.add("arpeggio", spec.origin)
        for m in s.modules.values(): s._index(m)
    def add(s, name, path): s.modules[name] = Module(name, path)
    def _index(s, m):
        def imports_of(body_owner, into):
            for n in ast.walk(body_owner):
                if isinstance(n, ast.Import):
                    for a in n.names: into[(a.asname or a.name).split(".")[0] if not a.asname else a.asname] = (a.name, None)
                elif isinstance(n, ast.ImportFrom):
                    base = n.module or ""
                    if n.level:
                        pk = m.name.split(".")
                        if not m.path.endswith("__init__.py"): pk = pk[:-1]
                        pk = pk[: len(pk) - (n.level - 1)]
                        base = ".".join(pk + ([n.module] if n.module else []))
                    for a in n.names: into[a.asname or a.name] = (base, a.name)
        imports_of(m.tree, m.imports)     # includes function-level imports (name -> target); fine for this package
        def visit(node, prefix, cls, parent):
            for c in ast.iter_child_nodes(node):
                if isinstance(c, (ast.FunctionDef, ast.AsyncFunctionDef)):
                    q = prefix + c.name; f = Func(m.name + "." + q, c, m, cls, parent); m.funcs[q] = f; c._func = f
                    visit(c, q + ".<locals>.", None, f)
                elif isinstance(c, ast.ClassDef):
                    q = prefix + c.name; m.classes[q] = c; c._qual = m.name + "." + q
                    visit(c, q + ".", c, parent)
                elif isinstance(c, (ast.If, ast.Try, ast.With, ast.For, ast.While)):
                    visit(c, prefix, cls, parent)
        visit(m.tree, "", None, None)
    # ---- resolution helpers
    def resolve_import(s, m, name):
        """follow an imported name to (Module, qual) if it lands in an indexed module"""
        seen = set()
        while name in m.imports and (m.name, name) not in seen:
            seen.add((m.name, name)); mod, attr = m.imports[name]
            if attr is None:
                return (s.modules.get(mod), None)
            tm = s.modules.get(mod)
            if tm is None:
                sub = s.modules.get(mod + "." + attr)
                return (sub, None) if sub else (None, mod + "." + attr)
            if attr in tm.funcs or attr in tm.classes: return (tm, attr)
            if attr in tm.imports: m, name = tm, attr; continue
            if (mod + "." + attr) in s.modules: return (s.modules[mod + "." + attr], None)
            return (tm, attr)      # module-level variable
        return (None, None)
    def all_funcs(s, pkg_prefix="textx"):
        for m in s.modules.values():
            if m.name.startswith(pkg_prefix):
                yield from m.funcs.values()
    def methods_named(s, name, pkg_prefix=("textx", "arpeggio")):
        out = []
        for m in s.modules.values():
            if m.name.startswith(pkg_prefix):
                for q, f in m.funcs.items():
                    if f.cls is not None and q.split(".")[-1] == name: out.append(f)
        return out
if __name__ == "__main__":
    ix = Index()
    for m in ix.modules.values(): print(m.name, len(m.funcs), "funcs", len(m.classes), "classes")
    print(sum(len(m.funcs) for m in ix.modules.values() if m.name.startswith("textx")))
