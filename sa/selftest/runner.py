"""thorough tier: apply the property's mutant / benign corpus to scratch copies and re-run the rules (filled in later)"""
def run_for_property(prop, root):
    return {"summary": {"mutants_total": 0}, "errors": []}
