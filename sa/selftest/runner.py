"""Self-validation of the rules (thorough tier and `./check --selftest`).

Each corpus entry is one textual edit of a file under textx/.  The edit is applied to a scratch copy of the analysed
tree's `textx/` directory (fresh mkdtemp outside /repo and /verif, removed afterwards), the property's rules are re-run
on the copy and the finding keys are compared with those of the unedited tree:
   mutant  (expect kill)   : must produce a new finding or an analysis error
   benign  (expect silent) : must produce no new finding and no analysis error
   info                    : recorded only
Entries whose `old` text is not present in the analysed tree are skipped (counted).  Nothing of textX is executed."""
import json, os, shutil, tempfile, multiprocessing
HERE = os.path.dirname(os.path.abspath(__file__))

VERIF = os.path.dirname(os.path.dirname(HERE))
def load_corpus():
    """textual single-edit entries (corpus*.json) + patch entries: /verif/seeded/<Cxx>-<k>/ (independently seeded
    property-breaking changes, expected to be reported by the check of <Cxx>) and /verif/benign/<id>/ (behaviour-
    preserving refactorings, expected to stay silent for every property)"""
    out = []
    for fn in sorted(os.listdir(HERE)):
        if fn.startswith("corpus") and fn.endswith(".json"): out += json.load(open(os.path.join(HERE, fn)))
    sd = os.path.join(VERIF, "seeded")
    if os.path.isdir(sd):
        expect = {}
        ef = os.path.join(sd, "EXPECT.json")
        if os.path.exists(ef): expect = json.load(open(ef))
        for d in sorted(os.listdir(sd)):
            pf = os.path.join(sd, d, "patch.diff")
            if os.path.exists(pf): out.append({"name": "seeded " + d, "prop": d.split("-")[0], "kind": "mutant", "patch": pf, "expect": expect.get(d, "kill"), "suite": "SURVIVES", "origin": "independent sub-agent"})
    bd = os.path.join(VERIF, "benign")
    if os.path.isdir(bd):
        for d in sorted(os.listdir(bd)):
            pf = os.path.join(bd, d, "patch.diff")
            if os.path.exists(pf): out.append({"name": "benign " + d, "prop": "*", "kind": "benign", "patch": pf, "expect": "silent", "suite": "passes", "origin": "independent sub-agent"})
    return out

def _keys(res):
    from sa.report import fkey
    return {fkey(f) for f in res.findings}

def _one(args):
    prop, root, m, base_keys = args
    from sa import report
    d = tempfile.mkdtemp(prefix="sa_selftest_")
    try:
        shutil.copytree(os.path.join(root, "textx"), os.path.join(d, "textx"), ignore=shutil.ignore_patterns("__pycache__"))
        if "patch" in m:
            import subprocess
            r = subprocess.run(["patch", "-p1", "-s", "-f", "-d", d, "-i", m["patch"]], capture_output=True, text=True)
            if r.returncode: return (m["name"], "skip", "patch does not apply to this tree")
        else:
            p = os.path.join(d, m["path"])
            if not os.path.exists(p): return (m["name"], "skip", "file missing")
            s = open(p, encoding="utf-8").read()
            if m["old"] not in s: return (m["name"], "skip", "anchor text not present")
            open(p, "w", encoding="utf-8").write(s.replace(m["old"], m["new"], 1))
        res = report.analyse(prop, d)
        new = _keys(res) - set(base_keys)
        if new: return (m["name"], "finding", sorted(new)[0][1] + " " + sorted(new)[0][3] + " [" + sorted(new)[0][4][:80] + "]")
        if res.errors: return (m["name"], "error", "%s: %s" % res.errors[0])
        return (m["name"], "silent", "")
    finally:
        shutil.rmtree(d, ignore_errors=True)

def run_for_property(prop, root, jobs=None, corpus=None):
    from sa import report
    corpus = corpus if corpus is not None else load_corpus()
    sel = [m for m in corpus if m["prop"] == prop or (m["kind"] == "benign" and prop in m.get("props", [prop]))]
    if not sel: return {"summary": {"mutants_total": 0, "benign_total": 0}, "weak": [], "noisy": []}
    base = report.analyse(prop, root); base_keys = sorted(_keys(base))
    jobs = jobs or min(16, os.cpu_count() or 4, len(sel))
    tasks = [(prop, root, m, base_keys) for m in sel]
    if jobs > 1:
        with multiprocessing.get_context("fork").Pool(jobs) as pool: results = pool.map(_one, tasks, chunksize=1)
    else: results = [_one(t) for t in tasks]
    by = {m["name"]: m for m in sel}
    weak, noisy, rows = [], [], []
    cnt = {"mutants_total": 0, "mutants_killed": 0, "mutants_skipped": 0, "benign_total": 0, "benign_silent": 0, "benign_skipped": 0, "info_total": 0, "info_killed": 0}
    for name, verdict, detail in results:
        m = by[name]; rows.append({"name": name, "kind": m["kind"], "expect": m["expect"], "verdict": verdict, "detail": detail, "suite": m.get("suite", "?")})
        if m["expect"] == "kill":
            if verdict == "skip": cnt["mutants_skipped"] += 1; continue
            cnt["mutants_total"] += 1
            if verdict in ("finding", "error"): cnt["mutants_killed"] += 1
            else: weak.append(name)
        elif m["expect"] == "silent":
            if verdict == "skip": cnt["benign_skipped"] += 1; continue
            cnt["benign_total"] += 1
            if verdict == "silent": cnt["benign_silent"] += 1
            else: noisy.append("%s (%s %s)" % (name, verdict, detail))
        else:
            if verdict != "skip":
                cnt["info_total"] += 1
                if verdict in ("finding", "error"): cnt["info_killed"] += 1
    cnt["rows"] = rows
    return {"summary": cnt, "weak": weak, "noisy": noisy}

def main(root="/repo", props=None):
    """./check --selftest : every property; exit 2 if a must-kill mutant survives or a benign variant is noisy"""
    from sa import props as P
    bad = 0
    for prop in sorted(props or P.P):
        r = run_for_property(prop, root); s = r["summary"]
        print("%s mutants %d/%d killed (%d skipped)  benign %d/%d silent  info %d/%d" % (prop, s.get("mutants_killed", 0), s.get("mutants_total", 0), s.get("mutants_skipped", 0), s.get("benign_silent", 0), s.get("benign_total", 0), s.get("info_killed", 0), s.get("info_total", 0)))
        for w in r["weak"]: print("   WEAK: must-kill mutant survives: " + w); bad += 1
        for n in r["noisy"]: print("   NOISY: benign variant raises: " + n); bad += 1
        for row in s.get("rows", []):
            if row["expect"] == "info" and row["verdict"] == "silent": print("   info survives: %s (suite: %s)" % (row["name"], row["suite"]))
    return 2 if bad else 0
