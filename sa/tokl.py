"""Exhaustive comparison of two repetition-free PEG expressions over an abstract token alphabet (used by the C24 differ
as a fallback when two rule bodies have different shapes).  Terminals (string literals, regexes) are opaque tokens; the
comparison is sound under the side condition checked here: the tokens' first-character sets are pairwise disjoint and no
token matches the empty string, so at any input position at most one token can match and PEG matching over characters
coincides with PEG matching over token strings (whitespace skipping is the same on both sides).  The language of a
repetition-free expression is finite, so enumerating every token string up to the longest consumable length + 1 is exhaustive."""
import itertools
from sa import rx
from sa.util import AnalysisError
class Unsupported(AnalysisError): pass
def _canon(r): return r.replace(r"\/", "/").replace("(?:", "(")
class Abstract:
    def __init__(s, t, G, max_nodes=400, opaque=None):
        """opaque: rule name -> (token name, regex source used for the first-character set); such rules are single tokens"""
        s.G = G; s.tokens = set(); s.n = 0; s.max_nodes = max_nodes; s.opaque = opaque or {}
        s.t = s.expand(t, ())
    def expand(s, t, stack):
        s.n += 1
        if s.n > s.max_nodes: raise Unsupported("expression too large")
        k = t[0]
        if k == "ref" and t[1] in s.opaque:
            tok = ("rule",) + tuple(s.opaque[t[1]]); s.tokens.add(tok); return ("tok", tok)
        if k == "ref":
            if t[1] in stack: raise Unsupported("recursive rule")
            if t[1] not in s.G: raise Unsupported("unknown rule " + t[1])
            return s.expand(s.G[t[1]], stack + (t[1],))
        if k == "lit": tok = ("lit", t[1]); s.tokens.add(tok); return ("tok", tok)
        if k == "re": tok = ("re", _canon(t[1])); s.tokens.add(tok); return ("tok", tok)
        if k == "eof": return ("eof",)
        if k in ("opt", "not", "and"): return (k, s.expand(t[1], stack))
        if k in ("seq", "alt"): return (k, [s.expand(c, stack) for c in t[1]])
        raise Unsupported("repetition")
def first_chars(tok):
    if tok[0] == "lit":
        if not tok[1]: raise Unsupported("empty literal")
        return {tok[1][0]}
    try: n = rx.Nfa(tok[2] if tok[0] == "rule" else tok[1], drop_trailing_boundary=True)
    except rx.Unsupported as e: raise Unsupported(str(e))
    S = n.closure({n.start})
    if n.accept in S: raise Unsupported("nullable regex token")
    return {ch for ch in rx.UNIVERSE if n.step(S, ch)}
def maxlen(t):
    k = t[0]
    if k == "tok": return 1
    if k in ("eof", "not", "and"): return 0
    if k == "opt": return maxlen(t[1])
    if k == "seq": return sum(maxlen(c) for c in t[1])
    return max(maxlen(c) for c in t[1])
def match(t, w, i):
    """PEG match of t on token string w at i -> new position or None"""
    k = t[0]
    if k == "tok": return i + 1 if i < len(w) and w[i] == t[1] else None
    if k == "eof": return i if i == len(w) else None
    if k == "opt":
        j = match(t[1], w, i); return i if j is None else j
    if k == "and": return i if match(t[1], w, i) is not None else None
    if k == "not": return i if match(t[1], w, i) is None else None
    if k == "seq":
        for c in t[1]:
            i = match(c, w, i)
            if i is None: return None
        return i
    for c in t[1]:          # ordered choice; an alternative that consumed nothing is skipped (Arpeggio), unless a predicate-only one
        j = match(c, w, i)
        if j is not None and j != i: return j
        if j is not None and j == i and c[0] not in ("opt", "seq"): return j
        if j is not None and j == i: raise Unsupported("nullable alternative inside an ordered choice")
    return None
def compare(a, b):
    toks = sorted(a.tokens | b.tokens)
    if not toks or len(toks) > 8: raise Unsupported("token alphabet size")
    fc = {t: first_chars(t) for t in toks}
    for x, y in itertools.combinations(toks, 2):
        if fc[x] & fc[y]: raise Unsupported("tokens %r and %r can start with the same character" % (x, y))
    L = max(maxlen(a.t), maxlen(b.t)) + 1
    if len(toks) ** L > 200000: raise Unsupported("too many strings")
    n = 0
    for l in range(L + 1):
        for w in itertools.product(toks, repeat=l):
            n += 1
            if match(a.t, w, 0) != match(b.t, w, 0): return False, w, n
    return True, None, n
