"""helpers shared by the rule prototypes"""
import ast, os
class Finding:
    def __init__(s, prop, rule, file, func, construct, msg, witness=None):
        s.prop, s.rule, s.file, s.func, s.construct, s.msg, s.witness = prop, rule, file, func, " ".join(construct.split()), msg, witness
    def key(s): return (s.prop, s.rule, s.file, s.func, s.construct)
    def __repr__(s): return "%s %s %s::%s  [%s]  %s" % (s.prop, s.rule, s.file, s.func, s.construct[:90], s.msg)
TIER = "quick"
class AnalysisError(Exception): pass
_cache = {}
# ---- run statistics and obligation recorder (what was analysed; feeds the evidence files)
import collections, hashlib
class Stats:
    def __init__(s): s.reset()
    def reset(s):
        s.files = {}                 # rel path -> sha256
        s.functions = set()          # anchors located by find()
        s.counters = collections.Counter()   # cfgs, cfg_nodes, path_queries, table_rows, ...
        s.obligations = []           # dicts: prop, rule, file, func, construct, ok, note
STATS = Stats()
_resetters = []
def reset():
    """forget every parsed tree and derived per-function analysis (a new root is about to be analysed)"""
    _cache.clear(); STATS.reset()
    for r in _resetters: r()
def ob(prop, rule, file, func, construct, ok=True, note=""):
    """record one rule instance (obligation) that was evaluated, with its verdict"""
    STATS.obligations.append({"prop": prop, "rule": rule, "file": file, "func": func, "construct": " ".join(str(construct).split())[:200], "ok": bool(ok), "note": note})
def load(root, rel):
    p = os.path.join(root, rel)
    if p not in _cache:
        if not os.path.exists(p): raise AnalysisError("missing file " + rel)
        src = open(p, encoding="utf-8").read()
        STATS.files[rel] = hashlib.sha256(src.encode()).hexdigest()
        try: t = ast.parse(src, p)
        except SyntaxError as e: raise AnalysisError("cannot parse %s: %s" % (rel, e))
        for a in ast.walk(t):
            for c in ast.iter_child_nodes(a): c._parent = a
        _cache[p] = t
    return _cache[p]
def find(tree, qual):
    """qual: dotted path of def/class names (nested allowed, '<locals>' not needed)"""
    cur = tree
    for part in qual.split("."):
        nxt = None
        for n in ast.walk(cur):
            if n is not cur and isinstance(n, (ast.FunctionDef, ast.AsyncFunctionDef, ast.ClassDef)) and n.name == part:
                nxt = n; break
        if nxt is None: raise AnalysisError("anchor not found: %s (at %s)" % (qual, part))
        cur = nxt
    STATS.functions.add(qual)
    return cur
def own_nodes(fn):
    stack = list(ast.iter_child_nodes(fn))
    while stack:
        n = stack.pop()
        if isinstance(n, (ast.FunctionDef, ast.AsyncFunctionDef, ast.ClassDef, ast.Lambda)): continue
        yield n
        stack.extend(ast.iter_child_nodes(n))
def calls(node, own=False):
    it = own_nodes(node) if own else ast.walk(node)
    for n in it:
        if isinstance(n, ast.Call): yield n
def callee_name(c):
    f = c.func
    return f.attr if isinstance(f, ast.Attribute) else getattr(f, "id", None)
def enclosing_func(node):
    n = node
    while n is not None and not isinstance(n, (ast.FunctionDef, ast.AsyncFunctionDef)): n = getattr(n, "_parent", None)
    return n
def qualname(node):
    parts = []
    n = node
    while n is not None:
        if isinstance(n, (ast.FunctionDef, ast.AsyncFunctionDef, ast.ClassDef)): parts.append(n.name)
        n = getattr(n, "_parent", None)
    return ".".join(reversed(parts))
def stmt_of(node):
    n = node
    while n is not None and not isinstance(n, ast.stmt): n = getattr(n, "_parent", None)
    return n
def ancestors(node):
    n = getattr(node, "_parent", None)
    while n is not None:
        yield n; n = getattr(n, "_parent", None)
def guards(node):
    """(test AST, polarity) of the If/While/IfExp conditions the node is control-dependent on (syntactic nesting)"""
    out = []; child = node
    for a in ancestors(node):
        if isinstance(a, ast.BoolOp):
            # short-circuit: operands to the left of `child` guard it
            for v in a.values:
                if v is child: break
                out.append((v, isinstance(a.op, ast.And)))
        if isinstance(a, (ast.If, ast.While)):
            if child in a.body or any(child is x for x in a.body): out.append((a.test, True))
            elif any(child is x for x in a.orelse): out.append((a.test, False))
        elif isinstance(a, ast.IfExp):
            if child is a.body: out.append((a.test, True))
            elif child is a.orelse: out.append((a.test, False))
        elif isinstance(a, (ast.ListComp, ast.GeneratorExp, ast.SetComp)):
            for g in a.generators:
                for c in g.ifs: out.append((c, True))
        if isinstance(a, (ast.FunctionDef, ast.AsyncFunctionDef)): break
        child = a
    return out

def block_of(stmt):
    """the statement list (body / orelse / finalbody / handler body) that contains stmt"""
    p = getattr(stmt, "_parent", None)
    for name in ("body", "orelse", "finalbody"):
        b = getattr(p, name, None)
        if isinstance(b, list) and any(x is stmt for x in b): return b
    raise AnalysisError("statement block not found")
def next_stmt(stmt):
    b = block_of(stmt); i = [k for k, x in enumerate(b) if x is stmt][0]
    return b[i + 1] if i + 1 < len(b) else None

def truth_uses(fn, pred):
    """expressions e with pred(e) that are used for their truth value inside fn (if/while/IfExp tests, operands of
    and/or/not, comprehension conditions) — i.e. where a falsy-but-present value (0, '', empty user object) is
    treated like an absent one.  Comparisons (`is None`, `==`) are not truth uses."""
    out = []
    def visit_test(t):
        if isinstance(t, ast.BoolOp):
            for v in t.values: visit_test(v)
        elif isinstance(t, ast.UnaryOp) and isinstance(t.op, ast.Not): visit_test(t.operand)
        elif pred(t): out.append(t)
    for n in own_nodes(fn):
        if isinstance(n, (ast.If, ast.While, ast.IfExp)): visit_test(n.test)
        elif isinstance(n, ast.Assert): visit_test(n.test)
        elif isinstance(n, ast.comprehension):
            for c in n.ifs: visit_test(c)
        elif isinstance(n, ast.BoolOp):
            # value position (x or default / x and y): every operand but the last is tested for truth
            for v in n.values[:-1]: visit_test(v)
        elif isinstance(n, ast.Call) and isinstance(n.func, ast.Name) and n.func.id == "bool" and len(n.args) == 1: visit_test(n.args[0])
    seen = set(); uniq = []
    for e in out:
        if id(e) not in seen: seen.add(id(e)); uniq.append(e)
    return uniq

_inl_cache = {}
_resetters.append(_inl_cache.clear)
def find_i(root, rel, qual, depth=2):
    """like find(load(root, rel), qual) but with small private helpers inlined (sa/inline.py): rules that use it are
    insensitive to 'extract helper function' refactorings.  The result is a copy: do not mix its nodes with nodes of
    the module tree."""
    key = (root, rel, qual, depth)
    if key not in _inl_cache:
        from sa import inline
        t = load(root, rel); fn = find(t, qual)
        try: _inl_cache[key] = inline.inline_function(fn, t, depth)
        except RecursionError: _inl_cache[key] = fn
    return _inl_cache[key]

def helper_functions(root, rel, qual=None):
    """name -> FunctionDef of the functions a body of `qual` can call by plain name or through self/cls: the module-level
    functions of the file, the methods of the enclosing class and the functions nested in the enclosing functions
    (for sa/pyeval.py's env["__functions__"]; a later definition of the same name in a nearer scope wins)"""
    t = load(root, rel); fns = {n.name: n for n in t.body if isinstance(n, ast.FunctionDef)}
    if qual:
        fn = find(t, qual); chain = [fn] + list(ancestors(fn))
        for a in reversed(chain):
            if isinstance(a, ast.ClassDef): fns.update({n.name: n for n in a.body if isinstance(n, ast.FunctionDef)})
            elif isinstance(a, ast.FunctionDef) and a is not fn:
                fns.update({n.name: n for n in ast.walk(a) if isinstance(n, ast.FunctionDef) and n is not a and enclosing_func(getattr(n, "_parent", None)) is a})
        fns.update({n.name: n for n in ast.walk(fn) if isinstance(n, ast.FunctionDef) and n is not fn and enclosing_func(getattr(n, "_parent", None)) is fn})
        fns.pop(fn.name, None) if False else None
    return fns

def clone(node):
    """structural copy of an AST node (fields and positions only: the _parent links and other annotations are not
    followed, unlike copy.deepcopy, which would copy the whole module through _parent)"""
    if isinstance(node, list): return [clone(x) for x in node]
    if not isinstance(node, ast.AST): return node
    new = node.__class__()
    for f, v in ast.iter_fields(node): setattr(new, f, clone(v))
    for a in ("lineno", "col_offset", "end_lineno", "end_col_offset"):
        if hasattr(node, a): setattr(new, a, getattr(node, a))
    return new

def module_str_env(tree):
    """module-level names bound to string constants (directly or by concatenation / f-strings of such): name -> str"""
    from sa import pyeval
    env = {}
    for n in tree.body:
        if isinstance(n, ast.Assign) and len(n.targets) == 1 and isinstance(n.targets[0], ast.Name):
            try:
                v = pyeval.evaluate(n.value, env)
                if isinstance(v, str): env[n.targets[0].id] = v
            except AnalysisError: pass
    return env
def const_str(expr, tree):
    """the string an expression denotes (constants, +, f-strings, module-level string names), else None"""
    from sa import pyeval
    try:
        v = pyeval.evaluate(expr, module_str_env(tree))
        return v if isinstance(v, str) else None
    except AnalysisError: return None

def full_match_guard(atoms):
    """do the path conditions (canonical atoms with polarity) include a test that the identifier regex matched the whole text?
    forms: m.span() == (0, len(s)), m.end() == len(s), m.group() == s, r.fullmatch(s) [is not None]"""
    for a, pol in atoms:
        g = a.replace(" ", "")
        if pol and (("span()==(0,len(" in g) or ("end()==len(" in g) or ("group()==" in g)): return True
        if "fullmatch(" in g:
            if g.endswith("isNone"):
                if not pol: return True
            elif pol: return True
    return False

def dict_literal_of(expr, module_tree, depth=0):
    """the dict display a table expression denotes: the display itself, a module-level name bound to one, dict(NAME), NAME.copy(), {**NAME}"""
    if depth > 4 or expr is None: return None
    if isinstance(expr, ast.Dict):
        if len(expr.keys) == 1 and expr.keys[0] is None: return dict_literal_of(expr.values[0], module_tree, depth + 1)
        return expr
    if isinstance(expr, ast.Name):
        for n in module_tree.body:
            if isinstance(n, ast.Assign) and any(isinstance(t_, ast.Name) and t_.id == expr.id for t_ in n.targets): return dict_literal_of(n.value, module_tree, depth + 1)
            if isinstance(n, ast.AnnAssign) and isinstance(n.target, ast.Name) and n.target.id == expr.id and n.value is not None: return dict_literal_of(n.value, module_tree, depth + 1)
        return None
    if isinstance(expr, ast.Call) and isinstance(expr.func, ast.Name) and expr.func.id in ("dict", "OrderedDict") and len(expr.args) == 1 and not expr.keywords: return dict_literal_of(expr.args[0], module_tree, depth + 1)
    if isinstance(expr, ast.Call) and isinstance(expr.func, ast.Attribute) and expr.func.attr == "copy" and not expr.args: return dict_literal_of(expr.func.value, module_tree, depth + 1)
    return None
