"""A8: PEG IR, extractors (Arpeggio-Python grammar functions; textX notation), normaliser, differ — C24."""
import ast, re, sys, difflib
import re._parser as sre, re._constants as sc
from sa.util import *
from sa import rx
from sa import tokl
# ---------------------------------------------------------------- extractor A (lang.py / rrel.py)
class PyGrammar:
    def __init__(s, trees):
        s.funcs = {}; s.trees = trees
        for t in trees:
            for n in t.body:
                if isinstance(n, ast.FunctionDef) and not n.args.args: s.funcs[n.name] = n
        s.rules = {}
        s.regex_names = {"_", "RegExMatch"}          # the names arpeggio.RegExMatch is imported under
        for t in trees:
            for n in t.body:
                if isinstance(n, ast.ImportFrom) and n.module == "arpeggio":
                    for a in n.names:
                        if a.name == "RegExMatch": s.regex_names.add(a.asname or a.name)
    def rule(s, name):
        if name in s.rules: return s.rules[name]
        f = s.funcs[name]; ret = [x for x in f.body if isinstance(x, ast.Return)]
        if len(ret) != 1: raise AnalysisError("grammar function %s: expected one return" % name)
        s.rules[name] = None
        saved = getattr(s, "_locals", {})
        s._locals = {st.targets[0].id: st.value for st in f.body if isinstance(st, ast.Assign) and len(st.targets) == 1 and isinstance(st.targets[0], ast.Name)}
        for st in f.body:                  # a, b = x, y
            if isinstance(st, ast.Assign) and len(st.targets) == 1 and isinstance(st.targets[0], ast.Tuple) and isinstance(st.value, ast.Tuple) and len(st.targets[0].elts) == len(st.value.elts):
                for tg_, v_ in zip(st.targets[0].elts, st.value.elts):
                    if isinstance(tg_, ast.Name): s._locals[tg_.id] = v_
        try: s.rules[name] = s.expr(ret[0].value)
        finally: s._locals = saved
        return s.rules[name]
    def const(s, e):
        """a grammar expression computed from module-level constants (list(TABLE), a named tuple of literals): its value,
        evaluated by sa/pyeval.py with the names imported from arpeggio as opaque values, as alternatives / a sequence of literals"""
        from sa import pyeval
        for t in s.trees:
            env = {"__module__": t}
            for n in t.body:
                if isinstance(n, ast.ImportFrom) and n.module and n.module.split(".")[0] == "arpeggio":
                    for a in n.names: env[a.asname or a.name] = pyeval.PyFn(lambda *a_, **k_: None)
            try: v = pyeval.evaluate(e, env)
            except (pyeval.Unsupported, pyeval.Raised): continue
            def conv(v):
                if isinstance(v, str): return ("lit", v)
                if isinstance(v, list) and v: return ("alt", [conv(x) for x in v])
                if isinstance(v, tuple) and v: return ("seq", [conv(x) for x in v])
                raise ValueError
            try: return conv(v)
            except ValueError: continue
        return None
    def expr(s, e):
        if isinstance(e, ast.Tuple): return ("seq", [s.expr(x) for x in e.elts])
        if isinstance(e, ast.List): return ("alt", [s.expr(x) for x in e.elts])
        if isinstance(e, ast.Constant) and isinstance(e.value, str): return ("lit", e.value)
        if isinstance(e, ast.Name) and e.id in getattr(s, "_locals", {}): return s.expr(s._locals[e.id])      # local alias inside a grammar function
        if isinstance(e, ast.Name):
            if e.id == "EOF": return ("eof",)
            if e.id not in s.funcs:
                v_ = s.const(e)
                if v_ is not None: return v_
                raise AnalysisError("unknown grammar symbol " + e.id)
            s.rule(e.id); return ("ref", e.id)
        if isinstance(e, ast.Call):
            fn = e.func.id if isinstance(e.func, ast.Name) else None
            if fn in s.regex_names and e.args:
                v = const_str(e.args[0], s.trees[0]) if not isinstance(e.args[0], ast.Constant) else e.args[0].value
                if v is None and len(s.trees) > 1: v = const_str(e.args[0], s.trees[1])
                if v is None: raise AnalysisError("regex of a grammar rule is not a constant string expression: " + ast.unparse(e)[:60])
                return ("re", v)
            if fn in ("list", "tuple", "sorted") and fn not in s.funcs:
                v_ = s.const(e)
                if v_ is not None: return v_
            args = [s.expr(a) for a in e.args]
            body = args[0] if len(args) == 1 else ("seq", args)
            if fn == "Optional": return ("opt", body)
            if fn in ("ZeroOrMore", "ArpeggioZeroOrMore"): return ("star", body, None)
            if fn == "OneOrMore": return ("plus", body, None)
            if fn in ("Not", "And"): return (fn.lower(), body)
        raise AnalysisError("unsupported grammar construct: " + ast.unparse(e))
# ---------------------------------------------------------------- extractor B (textx.tx)
TOK = re.compile(r"""(?P<ws>\s+|//[^\n]*|/\*.*?\*/)|(?P<str>'(?:\\'|[^'])*'|"(?:\\"|[^"])*")|(?P<re>/(?:\\/|[^/\n])*/)|(?P<op>\*=|\+=|\?=|[=:;|()\[\]*?+\#!&,\-])|(?P<id>\w+(?:\.\w+)*)""", re.X | re.S)
class TxGrammar:
    def __init__(s, text):
        s.t = []; pos = 0
        while pos < len(text):
            m = TOK.match(text, pos)
            if not m: raise AnalysisError("textx.tx: cannot tokenise at %d: %r" % (pos, text[pos:pos + 20]))
            pos = m.end()
            if m.lastgroup != "ws": s.t.append((m.lastgroup, m.group()))
        s.i = 0; s.rules = {}; s.order = []
        while s.peek()[0] != "eof":
            name = s.eat()
            if s.peek()[1] == "[":
                mods_ = []
                while True:
                    x_ = s.eat()
                    if x_ == "]": break
                    mods_.append(x_)
                s.mods = getattr(s, "mods", {}); s.mods[name] = mods_
            s.eat(":"); s.rules[name] = s.choice(); s.eat(";"); s.order.append(name)
    def peek(s, k=0): return s.t[s.i + k] if s.i + k < len(s.t) else ("eof", "")
    def eat(s, v=None):
        k, x = s.peek()
        if v is not None and x != v: raise AnalysisError("textx.tx: expected %r got %r (token %d)" % (v, x, s.i))
        s.i += 1; return x
    def choice(s):
        alts = [s.sequence()]
        while s.peek()[1] == "|": s.eat(); alts.append(s.sequence())
        return alts[0] if len(alts) == 1 else ("alt", alts)
    def sequence(s):
        items = []
        while s.peek()[1] not in ("|", ")", ";") and s.peek()[0] != "eof": items.append(s.repeatable())
        return items[0] if len(items) == 1 else ("seq", items)
    def modifiers(s):
        s.eat("["); sep = None
        while s.peek()[1] != "]":
            if s.peek()[1] == "eolterm": s.eat()
            else: sep = s.simple()
        s.eat("]"); return sep
    def simple(s):
        k, x = s.peek()
        if k == "str": s.eat(); return ("lit", bytes(x[1:-1], "utf-8").decode("unicode_escape") if "\\" in x else x[1:-1])
        if k == "re": s.eat(); return ("re", x[1:-1])
        raise AnalysisError("textx.tx: match expected, got %r" % x)
    def repeatable(s):
        e = s.expression(); k, x = s.peek()
        if k == "op" and x in ("*", "?", "+", "#"):
            s.eat(); sep = s.modifiers() if s.peek()[1] == "[" else None
            e = {"*": ("star", e, sep), "+": ("plus", e, sep), "?": ("opt", e), "#": ("unordered", e, sep)}[x]
        if s.peek()[1] == "-": s.eat()
        return e
    def expression(s):
        k, x = s.peek()
        if k == "id" and s.peek(1)[1] in ("=", "*=", "+=", "?="):
            s.eat(); op = s.eat(); k2, x2 = s.peek()
            if k2 in ("str", "re"): rhs = s.simple()
            elif x2 == "[":
                s.eat("["); s.eat(); rule = "ID"
                if s.peek()[1] in (":", "|"):
                    s.eat(); rule = s.eat()
                    if s.peek()[1] == "|": raise AnalysisError("textx.tx: RREL in the self-hosted grammar is not supported by the reader")
                s.eat("]"); rhs = ("ref", rule)
            else: rhs = ("ref", s.eat())
            sep = s.modifiers() if s.peek()[1] == "[" else None
            return {"=": rhs, "?=": ("opt", rhs), "*=": ("star", rhs, sep), "+=": ("plus", rhs, sep)}[op]
        pred = s.eat() if x in ("!", "&") else None
        k, x = s.peek()
        if k in ("str", "re"): e = s.simple()
        elif x == "(": s.eat(); e = s.choice(); s.eat(")")
        elif k == "id": e = ("ref", s.eat())
        else: raise AnalysisError("textx.tx: unexpected %r" % x)
        return ("not" if pred == "!" else "and", e) if pred else e
# ---------------------------------------------------------------- normal form
def canon_re(r):
    return r.replace(r"\/", "/").replace("(?:", "(")
def split_alt_regex(r):
    """top-level alternation of a regex -> list of branch sources (else None)"""
    depth = 0; parts = []; cur = ""; i = 0; cls = False
    while i < len(r):
        ch = r[i]
        if ch == "\\": cur += r[i:i + 2]; i += 2; continue
        if cls:
            if ch == "]": cls = False
        elif ch == "[": cls = True
        elif ch == "(": depth += 1
        elif ch == ")": depth -= 1
        elif ch == "|" and depth == 0: parts.append(cur); cur = ""; i += 1; continue
        cur += ch; i += 1
    parts.append(cur)
    def strip(p):
        while p.startswith("(") and p.endswith(")") and _balanced(p[1:-1]): p = p[1:-1]
        return p
    return [strip(p) for p in parts] if len(parts) > 1 else None
def _balanced(s):
    d = 0; i = 0
    while i < len(s):
        if s[i] == "\\": i += 2; continue
        if s[i] == "(": d += 1
        if s[i] == ")":
            d -= 1
            if d < 0: return False
        i += 1
    return d == 0
def norm(t):
    k = t[0]
    if k == "re":
        br = split_alt_regex(t[1])
        return ("alt", [("re", b) for b in br]) if br else t
    if k in ("lit", "ref", "eof"): return t
    if k in ("opt", "not", "and"): return (k, norm(t[1]))
    if k in ("star", "plus", "unordered"): return (k, norm(t[1]), norm(t[2]) if t[2] else None)
    items = []
    for c in t[1]:
        c = norm(c)
        if k == "alt" and c[0] == "opt": c = c[1]      # N1: Arpeggio's OrderedChoice skips an alternative that matched nothing (checked against its source in build())
        if c[0] == k: items.extend(c[1])
        else: items.append(c)
    if k == "seq":
        out = []; i = 0
        while i < len(items):
            c = items[i]
            nx = items[i + 1] if i + 1 < len(items) else None
            if nx is not None and nx[0] == "star" and nx[2] is None and nx[1][0] == "seq" and len(nx[1][1]) == 2 and nx[1][1][1] == c:
                out.append(("plus", c, nx[1][1][0])); i += 2; continue          # e (s e)*  ->  e+[s]
            if c[0] == "star" and c[2] is None and c[1][0] == "seq" and len(c[1][1]) == 2 and nx == c[1][1][0]:
                out.append(("plus", nx, c[1][1][1])); i += 2; continue           # (e s)* e  ->  e+[s]
            out.append(c); i += 1
        items = out
    return items[0] if len(items) == 1 else (k, items)
def show(t):
    k = t[0]
    if k == "lit": return repr(t[1])
    if k == "re": return "/%s/" % t[1]
    if k == "ref": return t[1]
    if k == "eof": return "EOF"
    if k in ("opt",): return "(%s)?" % show(t[1])
    if k in ("not", "and"): return ("!" if k == "not" else "&") + show(t[1])
    if k in ("star", "plus", "unordered"): return "(%s)%s%s" % (show(t[1]), {"star": "*", "plus": "+", "unordered": "#"}[k], "[%s]" % show(t[2]) if t[2] else "")
    return "(" + (" " if k == "seq" else " | ").join(show(c) for c in t[1]) + ")"
# ---------------------------------------------------------------- differ
class Differ:
    def __init__(s, A, B, equiv):
        s.A, s.B, s.equiv, s.diffs, s.paired, s.absorbed = A, B, equiv, [], set(), []
    def res(s, t, G):
        seen = set()
        while t[0] == "ref" and t[1] in G and t[1] not in seen: seen.add(t[1]); t = G[t[1]]
        return t
    def head(s, t, G, depth=0):
        """shallow signature used for aligning sequence items"""
        t = s.res(t, G) if depth < 3 else t
        if t[0] in ("lit",): return "lit:" + t[1]
        if t[0] == "re": return "re"
        if t[0] in ("opt", "star", "plus"): return t[0] + ":" + s.head(t[1], G, depth + 1)
        if t[0] in ("seq", "alt"): return t[0] + ":" + (s.head(t[1][0], G, depth + 1) if depth < 2 else "")
        return t[0]
    # ---- semantic fallbacks (each is a sound equivalence with a machine-checked side condition)
    def regex_only(s, t, G):
        """the regex source equivalent to t if t is built from regex terminals and ordered choice only, else None"""
        t = s.res(t, G)
        if t[0] == "re": return canon_re(t[1])
        if t[0] == "alt":
            parts = [s.regex_only(c, G) for c in t[1]]
            if all(p is not None for p in parts): return "|".join("(?:%s)" % p for p in parts)
        return None
    def simp(s, t, G):
        """N3: in an ordered choice drop a keyword alternative (w1|..|wn)\\b that is followed by the alternative \\w+ :
        whenever the keyword alternative matches, its match ends at a word boundary, so \\w+ matches exactly the same span"""
        if t[0] != "alt": return t
        kids = list(t[1]); res = [s.res(c, G) for c in kids]; keep = []
        for i, c in enumerate(res):
            if c[0] == "re" and rx.keyword_alt_with_boundary(c[1]) and any(d[0] == "re" and canon_re(d[1]) == r"\w+" for d in res[i + 1:]):
                s.absorbed.append(("N3 keyword alternative before \\w+", show(c))); continue
            keep.append(kids[i])
        return keep[0] if len(keep) == 1 else ("alt", keep)
    def same_regular_language(s, a, b):
        ra_, rb_ = s.regex_only(a, s.A), s.regex_only(b, s.B)
        if ra_ is None or rb_ is None: return False
        if ra_ == rb_: return True
        try:
            if not (rx.prefix_free(ra_) and rx.prefix_free(rb_)): return False     # then the match span is determined by the language alone
            eq, w = rx.compare(ra_, rb_)
        except rx.Unsupported: return False
        if eq: s.absorbed.append(("equal prefix-free regular languages", "/%s/ == /%s/" % (ra_, rb_)))
        return eq
    def same_finite_language(s, a, b):
        try:
            opa, opb = {}, {}
            for (x, y) in s.equiv:          # rule pairs of the equivalence table are one opaque token on both sides
                src = s.regex_only(("ref", x), s.A) if x in s.A else None
                if src is not None and y in s.B: opa[x] = opb[y] = ("%s~%s" % (x, y), src)
            ta, tb = tokl.Abstract(a, s.A, opaque=opa), tokl.Abstract(b, s.B, opaque=opb)
            eq, w, n = tokl.compare(ta, tb)
        except tokl.Unsupported: return False
        if eq: s.absorbed.append(("equal finite token languages (%d strings enumerated exhaustively)" % n, "%s == %s" % (show(a), show(b))))
        return eq
    def cmp(s, a, b, where, ra, rb):
        if a[0] == "ref" and b[0] == "ref":
            if (a[1], b[1]) in s.paired: return
            s.paired.add((a[1], b[1]))
            if (a[1], b[1]) in s.equiv: return
            return s.cmp(s.A[a[1]], s.B[b[1]], "", a[1], b[1])
        if a[0] == "ref" and a[1] in s.A: ra2 = a[1]; a = s.res(a, s.A)
        if b[0] == "ref" and b[1] in s.B: b = s.res(b, s.B)
        loc = "%s~%s%s" % (ra, rb, where)
        if (ra, rb) in s.equiv and not where: return
        a, b = s.simp(a, s.A), s.simp(b, s.B)
        if a[0] == "ref" and a[1] in s.A: a = s.res(a, s.A)
        if b[0] == "ref" and b[1] in s.B: b = s.res(b, s.B)
        if (a[0] != b[0] or a[0] == "alt") and s.same_regular_language(a, b): return
        if a[0] != b[0] or (a[0] in ("seq", "alt") and [s.head(x, s.A) for x in a[1]] != [s.head(x, s.B) for x in b[1]]):
            if s.same_finite_language(a, b): return
        if a[0] != b[0]:
            s.diffs.append((ra, rb, where, "shape", show(a), show(b)))
            if a[0] in ("star", "plus", "opt") and b[0] in ("star", "plus", "opt"): s.cmp(a[1], b[1], where + "/rep", ra, rb)
            elif a[0] == "opt": s.cmp(a[1], b, where + "/opt", ra, rb)
            elif b[0] == "opt": s.cmp(a, b[1], where + "/opt", ra, rb)
            return
        k = a[0]
        if k == "lit":
            if a[1] != b[1]: s.diffs.append((ra, rb, where, "literal", show(a), show(b)))
        elif k == "re":
            if canon_re(a[1]) != canon_re(b[1]) and not s.same_regular_language(a, b): s.diffs.append((ra, rb, where, "regex", show(a), show(b)))
        elif k in ("opt", "not", "and"): s.cmp(a[1], b[1], where + "/" + k, ra, rb)
        elif k in ("star", "plus", "unordered"):
            s.cmp(a[1], b[1], where + "/" + k, ra, rb)
            if (a[2] is None) != (b[2] is None): s.diffs.append((ra, rb, where, "separator", str(a[2] and show(a[2])), str(b[2] and show(b[2]))))
            elif a[2]: s.cmp(a[2], b[2], where + "/sep", ra, rb)
        elif k in ("seq", "alt"):
            ha = [s.head(x, s.A) for x in a[1]]; hb = [s.head(x, s.B) for x in b[1]]
            sm = difflib.SequenceMatcher(a=ha, b=hb, autojunk=False)
            for tag, i1, i2, j1, j2 in sm.get_opcodes():
                if tag == "equal":
                    for d in range(i2 - i1): s.cmp(a[1][i1 + d], b[1][j1 + d], where + "/%s[%d]" % (k, i1 + d), ra, rb)
                elif tag == "replace" and (i2 - i1) == (j2 - j1):
                    for d in range(i2 - i1): s.cmp(a[1][i1 + d], b[1][j1 + d], where + "/%s[%d]" % (k, i1 + d), ra, rb)
                else:
                    s.diffs.append((ra, rb, where, "items(%s)" % tag, " ".join(show(x) for x in a[1][i1:i2]) or "-", " ".join(show(x) for x in b[1][j1:j2]) or "-"))
                    # an optional group on one side against its unwrapped items on the other: compare the contents
                    xa, yb = a[1][i1:i2], b[1][j1:j2]
                    if k == "seq" and len(xa) == 1 and xa[0][0] == "opt" and len(yb) >= 1:
                        s.cmp(xa[0][1], yb[0] if len(yb) == 1 else ("seq", yb), where + "/seq~opt", ra, rb); continue
                    if k == "seq" and len(yb) == 1 and yb[0][0] == "opt" and len(xa) >= 1:
                        s.cmp(xa[0] if len(xa) == 1 else ("seq", xa), yb[0][1], where + "/seq~opt", ra, rb); continue
                    # still descend into the best-matching leftovers so that differences further right are not hidden
                    for x in a[1][i1:i2]:
                        for y in b[1][j1:j2]:
                            if s.head(x, s.A).split(":")[-1] == s.head(y, s.B).split(":")[-1] or (x[0] == "opt") != (y[0] == "opt"):
                                s.cmp(x[1] if x[0] == "opt" and y[0] != "opt" else x, y[1] if y[0] == "opt" and x[0] != "opt" else y, where + "/%s~" % k, ra, rb); break
# table equivalences: shape pairs the differ treats as one token; each has a machine-checked side condition in r_C24
EQUIV = {
    ("string_value", "STRING"): "two quoted-string regexes as alternatives vs one regex with the same two branches (branch order irrelevant: first characters differ)",
    ("re_match", "ReMatch"): "one regex /…/ vs '/' body '/': equal only if the body token cannot run into the closing slash (checked: lookahead in the body or the no-eat condition, r_C24) and the flattened regexes have the same language (checked by automaton product)",
}
def _check_arpeggio_choice():
    """N1 relies on OrderedChoice._parse accepting an alternative only if its result is not None"""
    import importlib.util
    spec = importlib.util.find_spec("arpeggio")
    if spec is None or not spec.origin: raise AnalysisError("arpeggio source not found")
    t = ast.parse(open(spec.origin, encoding="utf-8").read())
    oc = find(t, "OrderedChoice._parse")
    if not any(isinstance(n, ast.Compare) and isinstance(n.ops[0], ast.IsNot) and isinstance(n.comparators[0], ast.Constant) and n.comparators[0].value is None for n in ast.walk(oc)):
        raise AnalysisError("arpeggio OrderedChoice._parse no longer skips empty alternatives; normal-form rule N1 is unsound")
def build(root):
    _check_arpeggio_choice()
    lang = load(root, "textx/lang.py"); rrel = load(root, "textx/scoping/rrel.py")
    pg = PyGrammar([lang, rrel]); pg.rule("textx_model"); pg.rule("comment")
    A = {k: v for k, v in pg.rules.items()}
    A["textx_model"] = ("seq", [c for c in A["textx_model"][1] if c != ("eof",)])
    tx = TxGrammar(open(root + "/textx/textx.tx", encoding="utf-8").read()); B = dict(tx.rules)
    for n in lang.body:      # base types used by textx.tx
        if isinstance(n, ast.Assign) and isinstance(n.value, ast.Call) and getattr(n.value.func, "id", None) in ("_", "RegExMatch") and isinstance(n.targets[0], ast.Name) and n.targets[0].id in ("ID", "STRING", "INT", "FLOAT", "BOOL"):
            _v = const_str(n.value.args[0], lang)
            if _v is None: raise AnalysisError("regex of base type %s is not a constant string expression" % n.targets[0].id)
            B.setdefault(n.targets[0].id, ("re", _v))
    build.mods = dict(getattr(tx, "mods", {}))
    return {k: norm(v) for k, v in A.items()}, {k: norm(v) for k, v in B.items()}
def r_C24(root):
    A, B = build(root); TXMODS = dict(build.mods)
    d = Differ(A, B, EQUIV); d.cmp(("ref", "textx_model"), ("ref", "TextxModel"), "", "", ""); d.cmp(("ref", "comment"), ("ref", "Comment"), "", "", "")
    out = []; seen = set()
    for ra, rb, where, kind, sa, sb in d.diffs:
        key = (kind, sa, sb) if kind in ("regex",) else (ra, rb, where, kind)
        if key in seen: continue
        seen.add(key)
        out.append(Finding("C24", "C24.a", "textx/textx.tx", "%s ~ %s" % (ra, rb), "%s: %s  vs  %s" % (kind, sa, sb), "grammar compiler (%s) and self-hosted grammar (%s) differ at %s" % (ra, rb, where or "/")))
    # terminal vocabulary
    def lits(G, start):
        seen_, acc = set(), set()
        def w(t):
            if t[0] == "lit": acc.add(t[1])
            elif t[0] == "ref":
                if t[1] not in seen_ and t[1] in G: seen_.add(t[1]); w(G[t[1]])
            else:
                for c in t[1:]:
                    if isinstance(c, tuple): w(c)
                    elif isinstance(c, list):
                        for x in c: w(x)
        w(("ref", start)); return acc
    # machine-checked side conditions of the two remaining table equivalences (EQUIV)
    from sa import rx as _rx
    import re as _re_, re._parser as _sre, re._constants as _sc
    def _split_lookahead(pat):
        """(core pattern without a trailing positive lookahead for a literal, that literal or None); the core is rebuilt only
        when the lookahead is the last item of the pattern, which is recognised on the parsed regex"""
        try: items = list(_sre.parse(pat))
        except Exception: return pat, None
        if items and items[-1][0] is _sc.ASSERT and items[-1][1][0] == 1 and all(op is _sc.LITERAL for op, _a in items[-1][1][1]):
            lit = "".join(chr(a) for _op, a in items[-1][1][1])
            k = pat.rfind("(?=")
            if k != -1 and pat.endswith(")"): return pat[:k], lit
        return pat, None
    def _eats(pat, nxt):
        """PEG: a regex terminal is matched on its own, the next terminal is tried where it stopped.  Can a (greedy) match of
        `pat` run into the literal `nxt` that should follow it?  i.e. is there x in L(pat) such that x + nxt is a prefix of a
        longer match.  Returns a witness x or None."""
        a = _rx.Nfa(pat); reps = _rx.representatives([a])
        start = a.closure({a.start}); seen = {start: ""}; queue = [start]
        while queue:
            S = queue.pop(0)
            if a.accept in S:
                T = S
                for ch in nxt:
                    T = a.step(T, ch)
                    if not T: break
                if T: return seen[S]
            for ch in reps:
                T = a.step(S, ch)
                if T and T not in seen: seen[T] = seen[S] + ch; queue.append(T)
        return None
    def _flat_re(t):
        """regex source with the same PEG language as a term built from regex terminals, string literals, sequence and ordered
        choice; else None.  A sequence `re X, lit c` is flattened to X c only if X cannot run into c (or X ends in a lookahead for c,
        which makes the regex engine stop exactly where the flattened regex does)."""
        if t[0] == "re": return "(?:%s)" % t[1]
        if t[0] == "lit": return _re_.escape(t[1])
        if t[0] == "seq":
            ps = []
            for k, x in enumerate(t[1]):
                if x[0] == "re" and k + 1 < len(t[1]) and t[1][k + 1][0] == "lit":
                    core, la = _split_lookahead(x[1]); nxt = t[1][k + 1][1]
                    if la is not None and nxt.startswith(la): ps.append("(?:%s)" % core); continue
                    w = _eats(x[1], nxt)
                    if w is not None: raise _NotExact("the token /%s/ can run into the following %r (e.g. after %r): as separate PEG terminals the sequence rejects input that one regex for the whole token accepts" % (x[1], nxt, w), w + nxt)
                p_ = _flat_re(x)
                if p_ is None: return None
                ps.append(p_)
            return "".join(ps)
        if t[0] == "alt":
            ps = [_flat_re(x) for x in t[1]]; return None if None in ps else "(?:%s)" % "|".join(ps)
        return None
    class _NotExact(Exception):
        def __init__(s, msg, w): s.msg, s.w = msg, w
    def _ws_junctions(t, rule_name, mods):
        """parts of a token sequence before which the parser skips blanks although the part itself may begin with a blank:
        written as ONE regex (the other grammar) the blank belongs to the token, here it is skipped"""
        res = []
        if t[0] != "seq" or "noskipws" in (mods or []): return res
        for k, x in enumerate(t[1]):
            if k > 0 and x[0] == "re":
                try: a = _rx.Nfa(_split_lookahead(x[1])[0])
                except _rx.Unsupported: continue
                S0 = a.closure({a.start})
                if any(a.step(S0, ch) for ch in " \t\n"): res.append((k, x[1]))
        return res
    for (ra, rb) in sorted(EQUIV):
        if rb in B and (A.get(ra) or ("x",))[0] == "re":
            for k_, pat_ in _ws_junctions(B[rb], rb, TXMODS.get(rb)):
                out.append(Finding("C24", "C24.a", "textx/textx.tx", "%s ~ %s" % (ra, rb), "blanks before part %d (/%s/) of the token" % (k_ + 1, pat_[:40]), "the grammar compiler reads this token with ONE regex, so a blank after the opening delimiter is part of the token; the self-hosted grammar reads it as a sequence of terminals and skips blanks before /%s/, which may itself begin with a blank: the two read different tokens (R: / x/; is the regex ' x' for the compiler and 'x' in the inspected model) and disagree on acceptance when the skipped blank decides where the token ends" % pat_[:40], witness="R: / //x/ 'a';"))
        try: pa, pb = (_flat_re(A[ra]) if ra in A else None), (_flat_re(B[rb]) if rb in B else None)
        except _NotExact as e:
            d.paired.add((ra, rb, "language"))
            out.append(Finding("C24", "C24.a", "textx/textx.tx", "%s ~ %s" % (ra, rb), "token sequence vs single regex", e.msg, witness=e.w)); continue
        if pa is None or pb is None:
            out.append(Finding("C24", "C24.a", "textx/textx.tx", "%s ~ %s" % (ra, rb), "shape", "the table equivalence %s ~ %s (%s) no longer has the regex-only shape it was confirmed for" % (ra, rb, EQUIV[(ra, rb)]))); continue
        try: eq, w = _rx.compare(pa, pb)
        except _rx.Unsupported as e: raise AnalysisError("equivalence %s ~ %s: %s" % (ra, rb, e))
        d.paired.add((ra, rb, "language"))
        if not eq: out.append(Finding("C24", "C24.a", "textx/textx.tx", "%s ~ %s" % (ra, rb), "regex: /%s/ vs /%s/" % (pa[:60], pb[:60]), "grammar compiler and self-hosted grammar accept different tokens here: %r is accepted by one of them only" % w, witness=w))
    la, lb = lits(A, "textx_model"), lits(B, "TextxModel")
    for x in sorted(la - lb - {"/"}): out.append(Finding("C24", "C24.b", "textx/textx.tx", "vocabulary", repr(x), "literal of the grammar compiler missing from the self-hosted grammar"))
    for x in sorted(lb - la - {"/"}): out.append(Finding("C24", "C24.b", "textx/lang.py", "vocabulary", repr(x), "literal of the self-hosted grammar missing from the grammar compiler"))
    # a disagreement about the tokens of the import statement is a defect of grammar imports (C25) too
    for f in list(out):
        if f.prop != "C24": continue
        if "import" in f.func.lower(): out.append(Finding("C25", f.rule, f.file, f.func, f.construct, f.msg, f.witness))
        # the tokens and shapes of RREL expressions: what the printer emits must be what the parser reads (C12)
        if f.rule == "C24.a" and "rrel" in f.func.lower() and not f.construct.startswith("blanks before"): out.append(Finding("C12", f.rule, f.file, f.func, f.construct, f.msg, f.witness))
        # the two grammars disagree on the SHAPE of a rule: one of them accepts a text the other refuses - an invalid grammar is accepted or a valid one refused (C23)
        if f.rule == "C24.a" and f.construct.startswith("shape:"): out.append(Finding("C23", f.rule, f.file, f.func, f.construct, f.msg, f.witness))
    return len(d.paired), out
ALL = [r_C24]
if __name__ == "__main__":
    from sa import util
    for root in sys.argv[1:] or ["/repo"]:
        print("=====", root); util._cache.clear()
        try:
            inst, fs = r_C24(root); print("r_C24 rule pairs=%d findings=%d" % (inst, len(fs)))
            for f in fs: print("     ", f.rule, f.func, "|", f.construct[:150])
        except AnalysisError as e: print("ANALYSIS-ERROR", e)
