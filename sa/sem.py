"""semantic helpers on top of A3/A5: CFG-based guards and alias expansion (per function, cached)"""
import ast, copy
from sa.util import clone as _clone
from sa.cfg import CFG, control_dependence, guards_of
from sa.reach import Reaching
_cache = {}
from sa import util as _util
_util._resetters.append(_cache.clear)
from sa import cfg as _cfgmod
_util._resetters.append(_cfgmod._guard_cache.clear)
class FuncInfo:
    def __init__(s, fn):
        s.fn = fn; s.cfg = CFG(fn); s.cd = control_dependence(s.cfg); s.rd = Reaching(s.cfg, fn)
        s._node_of = {}
    def node_of(s, ast_node):
        # compound statements are represented in the CFG by their header expression
        if isinstance(ast_node, ast.For): ast_node = ast_node.iter
        elif isinstance(ast_node, (ast.While, ast.If)): ast_node = ast_node.test
        elif isinstance(ast_node, ast.Try) and ast_node.body: return s.node_of(ast_node.body[0])
        best = None
        for n in s.cfg.nodes:
            if n.ast is not None and n.kind != "def" and any(x is ast_node for x in ast.walk(n.ast)):
                if best is None or len(ast.dump(n.ast)) < len(ast.dump(best.ast)): best = n
        return best
    def guards(s, ast_node):
        """[(test, polarity)] incl. early-exit guards, short-circuit operands, comprehension filters and IfExp tests"""
        if isinstance(ast_node, ast.For): ast_node = ast_node.iter
        elif isinstance(ast_node, (ast.While, ast.If)): ast_node = ast_node.test
        elif isinstance(ast_node, ast.Try) and ast_node.body: ast_node = ast_node.body[0]
        out = list(guards_of(s.cfg, s.cd, ast_node) or [])
        child = ast_node; a = getattr(ast_node, "_parent", None)
        while a is not None and not isinstance(a, ast.stmt):
            if isinstance(a, ast.BoolOp):
                for v in a.values:
                    if v is child: break
                    out.append((v, isinstance(a.op, ast.And)))
            elif isinstance(a, ast.IfExp):
                if child is a.body: out.append((a.test, True))
                elif child is a.orelse: out.append((a.test, False))
            elif isinstance(a, (ast.ListComp, ast.GeneratorExp, ast.SetComp)):
                for g in a.generators:
                    for c in g.ifs: out.append((c, True))
            child = a; a = getattr(a, "_parent", None)
        return out
    def expand(s, expr, at=None, depth=0):
        """replace local names that have exactly one reaching definition `name = <expr>` by that expression (recursively)"""
        if depth > 5: return expr
        node = s.node_of(at if at is not None else expr)
        if node is None: return expr
        rd = s.rd; cfg = s.cfg
        class T(ast.NodeTransformer):
            def visit_Name(self, n):
                if not isinstance(n.ctx, ast.Load): return n
                defs = rd.defs_of(node, n.id)
                if len(defs) == 1:
                    dn = cfg.nodes[defs[0]]; a = dn.ast
                    if dn.kind == "stmt" and isinstance(a, ast.Assign) and len(a.targets) == 1 and isinstance(a.targets[0], ast.Name) and not any(isinstance(x, ast.Name) and x.id == n.id for x in ast.walk(a.value)):
                        return s.expand(_clone(a.value), at=a, depth=depth + 1)
                return n
        return T().visit(_clone(expr))
    def text(s, expr, at=None): return ast.unparse(s.expand(expr, at))
    def atoms_at(s, ast_node, expand=True):
        """conditions that necessarily hold where ast_node executes, as a list of (canonical atom text, polarity):
        control-dependence guards (incl. early exits, short-circuit operands, comprehension filters) split by De Morgan
        (a true conjunction / a false disjunction yield their parts), negations pushed inward, `!=`/`is not`/`not in`
        canonicalised to the negated positive atom, single-definition locals expanded.  A true disjunction / false
        conjunction stays one compound atom."""
        out = []
        def add(t, pol):
            if isinstance(t, ast.UnaryOp) and isinstance(t.op, ast.Not): return add(t.operand, not pol)
            if isinstance(t, ast.BoolOp) and ((isinstance(t.op, ast.And) and pol) or (isinstance(t.op, ast.Or) and not pol)):
                for v in t.values: add(v, pol)
                return
            if isinstance(t, ast.Compare) and len(t.ops) == 1 and isinstance(t.ops[0], (ast.NotEq, ast.IsNot, ast.NotIn)):
                op = {ast.NotEq: ast.Eq, ast.IsNot: ast.Is, ast.NotIn: ast.In}[type(t.ops[0])]()
                t = ast.Compare(left=t.left, ops=[op], comparators=t.comparators); pol = not pol
            out.append((" ".join(ast.unparse(t).split()), pol))
        for g, pol in s.guards(ast_node):
            ge = s.expand(g, at=g) if expand else g
            add(ge, pol)
        return out
    def holds(s, ast_node, text, pol=True):
        """is the atom (whitespace-insensitive text) known to have this polarity at ast_node?"""
        key = text.replace(" ", "")
        return any(a.replace(" ", "") == key and p == pol for a, p in s.atoms_at(ast_node))
def info(fn):
    if id(fn) not in _cache: _cache[id(fn)] = FuncInfo(fn)
    return _cache[id(fn)]
