"""Sample parsing-expression trees for evaluation-based rules (sa/pyeval.py).

An expression is a sample object {'.kind': <Arpeggio class name>, '.nodes': [...], '.rule_name': ..., '.root': ...};
isinstance(expr, <Class>) is answered from Arpeggio's own class hierarchy, read from the installed arpeggio source with
ast (nothing is imported or run), plus textX's RuleCrossRef / ClassCrossRef (classes of lang.py, no Arpeggio base)."""
import ast, importlib.util
from sa import pyeval
from sa.util import AnalysisError
_H = {}
def hierarchy():
    if _H: return _H
    spec = importlib.util.find_spec("arpeggio")
    if spec is None or not spec.origin: raise AnalysisError("arpeggio source not found")
    t = ast.parse(open(spec.origin, encoding="utf-8").read())
    for c in t.body:
        if isinstance(c, ast.ClassDef): _H[c.name] = [b.id for b in c.bases if isinstance(b, ast.Name)]
    for k in ("Sequence", "OrderedChoice", "OneOrMore", "ZeroOrMore", "Optional", "UnorderedGroup", "Match", "RegExMatch", "StrMatch", "Not", "And", "Repetition"):
        if k not in _H: raise AnalysisError("arpeggio class %s not found" % k)
    return _H
def isa(kind, cls):
    h = hierarchy(); seen = set(); todo = [kind]
    while todo:
        k = todo.pop()
        if k == cls: return True
        if k in seen: continue
        seen.add(k); todo += h.get(k, [])
    return False
def classes_env():
    """env['__classes__'] entries for every Arpeggio class and textX's cross-reference placeholders"""
    d = {}
    for c in hierarchy(): d[c] = (lambda v, c=c: isinstance(v, dict) and ".kind" in v and isa(v[".kind"], c))
    for c in ("RuleCrossRef", "ClassCrossRef"): d[c] = (lambda v, c=c: isinstance(v, dict) and v.get(".kind") == c)
    d["str"] = lambda v: isinstance(v, str); d["list"] = lambda v: isinstance(v, list)
    return d
class HS(dict):
    """sample object compared and hashed by identity (usable in sets and as dict key, like the objects it stands for)"""
    __hash__ = object.__hash__
    def __eq__(s, o): return s is o
    def __ne__(s, o): return s is not o
    def __getattr__(s, name):
        # the trusted standard-library functions (operator.attrgetter, getattr) read a sample's fields like attributes
        try: return s["." + name]
        except KeyError: raise AttributeError(name)
def ctor_env(made=None):
    """stand-ins for the expression constructors: each name is the class object of that kind (type(x) is Sequence holds for a
    sample Sequence) and, called, builds a sample expression of that kind marked as made by the interpreted code"""
    return {k: type_of(k) for k in ("Sequence", "OrderedChoice", "OneOrMore", "ZeroOrMore", "Optional", "UnorderedGroup", "Not", "And", "StrMatch", "RegExMatch")}
class MM(dict):
    """sample meta-model: subscript / `in` by rule name, iteration over the classes (as TextXMetaModel does)"""
    def __iter__(s): return iter(list(dict.values(s)))
_TYPES = {}
def type_of(kind):
    """the class object of a sample expression kind: what type(sample) gives and what the class name means as a value (also a constructor)"""
    if kind not in _TYPES:
        def ctor(*a, nodes=None, rule_name="", root=False, _k=kind, **kw):
            if a and isinstance(a[0], str) and nodes is None: kw.setdefault("to_match", a[0]); a = a[1:]
            if a and isinstance(a[0], str) and isa(_k, "Match") and not rule_name: rule_name = a[0]; a = a[1:]        # Match(to_match, rule_name, ...)
            if isa(_k, "Match"):            # what Arpeggio's Match classes keep: the pattern, its display text, a compile step
                if _k == "RegExMatch": kw.setdefault("to_match_regex", kw.get("to_match")); kw["to_match"] = kw.get("str_repr") or kw.get("to_match")
                kw.setdefault("ignore_case", None); kw.setdefault("compile", pyeval.PyFn(lambda: None))
            if a and nodes is None and len(a) == 1 and isinstance(a[0], (list, tuple)) and not isa(_k, "Match"): a = tuple(a[0])        # Sequence([a, b])
            # arpeggio's constructors read rule_name, root, nodes, suppress (ParsingExpression), ws / skipws (Sequence), eolterm / sep
            # (Repetition) and the parameters of the Match classes; every other keyword argument is silently dropped
            if not isa(_k, "Match"):
                keep = {"suppress"} | ({"ws", "skipws"} if isa(_k, "Sequence") else set()) | ({"eolterm", "sep"} if isa(_k, "Repetition") else set())
                kw = {k_: v_ for k_, v_ in kw.items() if k_ in keep or k_.startswith("_")}
            e_ = E(_k, *(list(nodes) if nodes is not None else list(a)), rule_name=rule_name, root=root, **kw)
            e_[".made_by_code"] = True
            return e_
        _TYPES[kind] = pyeval.PyFn(ctor)
    return _TYPES[kind]
def type_env():
    """class names of terminal matches as values (the composite ones come from ctor_env)"""
    return {k: type_of(k) for k in ("StrMatch", "RegExMatch", "Match", "EndOfFile")}
def E(kind, *nodes, rule_name="", root=False, **kw):
    e = HS({".kind": kind, ".nodes": list(nodes), ".rule_name": rule_name, ".root": root, ".suppress": False, ".__class__": type_of(kind)})
    for k_, v_ in kw.items(): e["." + k_] = v_
    return e
def asgn(op, attr, rhs=None):
    """assignment node as visit_assignment leaves it: op in plain / optional / oneormore / zeroormore"""
    return E("Sequence", rhs if rhs is not None else E("RegExMatch", rule_name="INT", to_match="[-+]?[0-9]+\\b", to_match_regex="[-+]?[0-9]+\\b", ignore_case=False, str_repr=None), rule_name="__asgn_" + op, _attr_name=attr, _exp_str=attr)
def match(name="kw"): return E("StrMatch", rule_name="", to_match=name)
def ruleref(name): return {".kind": "RuleCrossRef", ".rule_name": name, ".suppress": False, ".position": 0}
