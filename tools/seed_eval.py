#!/venv/bin/python
"""Confirm a seeded change and run the checks against it.
usage: seed_eval.py <dir with patch.diff demo.py meta.json> [...]      (dirs may be under /tmp/wt-out or /verif/seeded)
For each: scratch worktree of /repo HEAD under /tmp/sv (removed afterwards) -> apply patch -> demo must exit 1 there and
0 on /repo -> suite must give 313/313 stable passes -> every property's quick check is run with --repo <scratch>.
Prints one JSON line per seed: confirmed?, which properties raised VIOLATION / ANALYSIS-ERROR."""
import json, os, subprocess, sys, tempfile, shutil, concurrent.futures as cf
VERIF = os.path.dirname(os.path.dirname(os.path.abspath(__file__)))
ENV = dict(os.environ, PYTHONDONTWRITEBYTECODE="1")
def sh(cmd, **kw): return subprocess.run(cmd, shell=True, capture_output=True, text=True, **kw)
def suite(tree):
    base = set(json.load(open("/root/.vp/BASELINE.json"))["stable_pass"])
    j = tempfile.mktemp(suffix=".xml", prefix="junit_", dir="/tmp")
    sh("cd %s && PYTHONPATH=%s /venv/bin/python -m pytest -q -p no:cacheprovider --timeout=60 --continue-on-collection-errors --junitxml=%s" % (tree, tree, j), env=ENV)
    import xml.etree.ElementTree as ET
    ok = set()
    try:
        for tc in ET.parse(j).getroot().iter("testcase"):
            if not any(c.tag in ("failure", "error", "skipped") for c in tc): ok.add(tc.get("classname") + "::" + tc.get("name"))
    except Exception: pass
    finally:
        if os.path.exists(j): os.remove(j)
    return len(base & ok), len(base), sorted(base - ok)[:5]
def evaluate(d, props=None, skip_confirm=False):
    d = os.path.abspath(d); tag = d.strip("/").replace("/", "_")[-40:]
    wt = os.path.join("/tmp/sv", tag); os.makedirs("/tmp/sv", exist_ok=True)
    out = {"seed": d, "meta": json.load(open(os.path.join(d, "meta.json"))) if os.path.exists(os.path.join(d, "meta.json")) else {}}
    sh("git -C /repo worktree remove --force %s" % wt); shutil.rmtree(wt, ignore_errors=True)
    r = sh("git -C /repo worktree add --detach %s HEAD" % wt)
    try:
        if r.returncode: out["error"] = "worktree: " + r.stderr[-200:]; return out
        r = sh("git -C %s apply %s" % (wt, os.path.join(d, "patch.diff")))
        if r.returncode: out["error"] = "patch does not apply: " + r.stderr[-300:]; return out
        if not skip_confirm:
            demo = os.path.join(d, "demo.py")
            r1 = sh("cd /tmp && PYTHONPATH=%s timeout 300 /venv/bin/python %s" % (wt, demo), env=ENV)
            r0 = sh("cd /tmp && PYTHONPATH=/repo timeout 300 /venv/bin/python %s" % demo, env=ENV)
            out["demo_patched_rc"], out["demo_clean_rc"] = r1.returncode, r0.returncode
            out["demo_patched_out"] = (r1.stdout + r1.stderr)[-300:]
            n, tot, miss = suite(wt); out["suite"] = "%d/%d" % (n, tot); out["suite_missing"] = miss
            out["confirmed"] = r1.returncode == 1 and r0.returncode == 0 and n == tot
        import importlib
        sys.path.insert(0, VERIF)
        from sa import props as P
        viol, err, lines = [], [], {}
        for p in sorted(props or P.P):
            r = sh("%s/check %s --repo %s --no-write" % (VERIF, p, wt), env=ENV)
            if r.returncode == 1: viol.append(p); lines[p] = [l.strip() for l in r.stdout.splitlines() if l.startswith("   ")][:3]
            elif r.returncode != 0: err.append(p); lines[p] = [l.strip() for l in r.stdout.splitlines() if l.startswith("ANALYSIS-ERROR")][:2]
        out["violations"], out["analysis_errors"], out["lines"] = viol, err, lines
        return out
    finally:
        sh("git -C /repo worktree remove --force %s" % wt); shutil.rmtree(wt, ignore_errors=True)
if __name__ == "__main__":
    args = [a for a in sys.argv[1:] if not a.startswith("--")]
    skip = "--no-confirm" in sys.argv
    with cf.ThreadPoolExecutor(max_workers=6) as ex:
        for o in ex.map(lambda d: evaluate(d, skip_confirm=skip), args):
            m = o.get("meta", {})
            print(json.dumps({k: o.get(k) for k in ("seed", "confirmed", "demo_patched_rc", "demo_clean_rc", "suite", "violations", "analysis_errors", "error")}))
            for p, ls in o.get("lines", {}).items():
                for l in ls: print("      %s: %s" % (p, l[:220]))
            sys.stdout.flush()
