#!/venv/bin/python
"""Run every property's check against behaviour-preserving refactorings (false-alarm test).
usage: benign_eval.py [--confirm] [--import] <dir with patch.diff meta.json> ...     (default: every dir under /verif/benign)
  --confirm : also run the repository's test suite on a scratch worktree with the patch (must give 313/313)
  --import  : copy confirmed ones to /verif/benign/<Cxx>-b<k>/
For each: patch applied to a scratch copy of /repo/textx; every property analysed in-process; a finding that is not on
the unpatched tree is a FALSE ALARM (the refactoring keeps behaviour); analysis errors are listed separately."""
import json, os, shutil, subprocess, sys, tempfile, multiprocessing
VERIF = os.path.dirname(os.path.dirname(os.path.abspath(__file__))); sys.path.insert(0, VERIF)
sys.path.insert(0, os.path.join(VERIF, "tools"))
import seed_static
def one(d):
    from sa import report, props
    tmp = tempfile.mkdtemp(prefix="sa_benign_")
    try:
        shutil.copytree("/repo/textx", tmp + "/textx", ignore=shutil.ignore_patterns("__pycache__"))
        r = subprocess.run(["patch", "-p1", "-s", "-d", tmp, "-i", os.path.join(d, "patch.diff")], capture_output=True, text=True)
        if r.returncode: return (d, "PATCH-FAIL", [], [])
        alarms, errs = [], []
        for p in sorted(props.P):
            base = seed_static.base_keys(p)
            res = report.analyse(p, tmp)
            new = [f for f in res.findings if report.fkey(f) not in base]
            for f in new: alarms.append("%s %s %s [%s] %s" % (p, f.rule, f.func, f.construct[:70], f.msg[:80]))
            for e in res.errors: errs.append("%s %s: %s" % (p, e[0], e[1][:140]))
        return (d, "ok", alarms, errs)
    finally: shutil.rmtree(tmp, ignore_errors=True)
if __name__ == "__main__":
    confirm = "--confirm" in sys.argv; imp = "--import" in sys.argv
    tag = ""
    if "--tag" in sys.argv: i_ = sys.argv.index("--tag"); tag = sys.argv[i_ + 1] + "-"; del sys.argv[i_:i_ + 2]
    dirs = [a for a in sys.argv[1:] if not a.startswith("--")]
    if not dirs:
        b = os.path.join(VERIF, "benign"); dirs = [os.path.join(b, x) for x in sorted(os.listdir(b))] if os.path.isdir(b) else []
    dirs = [os.path.abspath(d) for d in dirs if os.path.exists(os.path.join(d, "patch.diff"))]
    ok_dirs = dirs
    if confirm:
        import seed_eval
        ok_dirs = []
        for d in dirs:
            wt = "/tmp/sv/b_" + d.strip("/").replace("/", "_")[-30:]
            subprocess.run("git -C /repo worktree remove --force %s; rm -rf %s; git -C /repo worktree add --detach %s HEAD" % (wt, wt, wt), shell=True, capture_output=True)
            r = subprocess.run("git -C %s apply %s/patch.diff" % (wt, d), shell=True, capture_output=True, text=True)
            if r.returncode: print("NOT-APPLICABLE", d, r.stderr[-150:])
            else:
                n, tot, miss = seed_eval.suite(wt)
                if n == tot: ok_dirs.append(d)
                else: print("SUITE-FAILS", d, "%d/%d" % (n, tot), miss)
            subprocess.run("git -C /repo worktree remove --force %s; rm -rf %s" % (wt, wt), shell=True, capture_output=True)
    from sa import props as _P
    seed_static.prime(sorted(_P.P))
    with multiprocessing.get_context("fork").Pool(min(16, max(1, len(ok_dirs)))) as pool: rs = pool.map(one, ok_dirs, chunksize=1)
    fa = 0
    for d, st, alarms, errs in rs:
        print("%-40s %s  false-alarms=%d  analysis-errors=%d" % (d[-40:], st, len(alarms), len(errs)))
        for a in alarms: print("     FALSE-ALARM " + a); fa += 1
        for e in errs: print("     analysis-error " + e)
        if imp and st == "ok":
            parts = d.strip("/").split("/"); dst = os.path.join(VERIF, "benign", "%s-b%s%s" % (parts[-2], tag, parts[-1]))
            if not os.path.exists(dst):
                os.makedirs(dst)
                for f in ("patch.diff", "meta.json"):
                    if os.path.exists(os.path.join(d, f)): shutil.copy(os.path.join(d, f), dst)
    stale = [d for d, st, _a, _e in rs if st != "ok"]; ae = sum(1 for _d, _s, _a, errs in rs if errs)
    print("refactorings: %d, false alarms: %d, with analysis errors: %d, patches that no longer apply: %d %s" % (len(rs), fa, ae, len(stale), [os.path.basename(x) for x in stale] if stale else ""))
