#!/venv/bin/python
"""writes /verif/MANIFEST.json from sa/props.py and sa/registry.py (so that the manifest never drifts from the rules)"""
import json, os, sys
HERE = os.path.dirname(os.path.dirname(os.path.abspath(__file__))); sys.path.insert(0, HERE)
from sa import props, registry
NOT_APPLICABLE = {}   # property id -> reason   (none declined entirely; see DESIGN.md section 4)
def _evaluated(pid, p):
    """clauses of the property whose deciding method is the interpretation of the anchored functions by the checker's own AST evaluator"""
    ev = sorted(c for c, txt in p.get("decided", {}).items() if "evaluat" in txt or "state machine" in txt)
    if not ev: return ""
    return ("; clauses %s: AST interpretation of the anchored functions over finite sample objects by the checker's own evaluator (sa/pyeval.py: no textX code is imported, compiled or run by Python; "
            "library calls and collaborators are stand-ins supplied by the analysis; a construct outside the evaluator's subset is an analysis error)" % ", ".join(ev))
checks = []
for pid in sorted(props.P):
    if pid in NOT_APPLICABLE: continue
    p = props.P[pid]
    checks.append({
        "property_id": pid,
        "quick_cmd": "./check %s --tier quick" % pid,
        "thorough_cmd": "./check %s --tier thorough" % pid,
        "evidence_file": "evidence/%s.json" % pid,
        "replay_cmd_template": "./check %s --replay {path}" % pid,
        "engine": "sa",
        "level_claimed": {"category": "other",
            "text": "Static analysis of /repo's current source: decides the clauses %s — each a necessary condition of the property (a counterexample input/history exists whenever one is false). Structural clauses are decided on every path / call site / table row of the anchored code; the clauses named under `technique` as interpreted are decided by interpreting the anchored functions with the checker's own AST interpreter on finite sample objects, i.e. for those samples and the paths they drive, not for all inputs. It does NOT decide the behavioural property as a whole: %s." % (", ".join(sorted(p["decided"])), p["declined"]),
            "design_ref": "DESIGN.md section 3, %s" % pid},
        "level_note": "Trusted base: CPython ast/symtable/re._parser; Arpeggio semantics as read from its installed source; spec tables transcribed from docs/src/*.md; confirmed callback table of the call graph. Nothing from textX is imported or executed. A construct outside a rule's supported subset or a vanished anchor is an analysis error (exit 2), never a pass.",
        "technique": "static analysis: " + p["technique"] + _evaluated(pid, p),
    })
m = {
    "version": 1,
    "setup_cmd": "./check --self",
    "hooks": {"guard": "TEXTX_VERIF", "enable": "none needed: the checks read source only; no hook commits exist in /repo", "baseline_off_cmd": "cd /repo && /venv/bin/python -m pytest -ra -q -p no:cacheprovider --timeout=900 --continue-on-collection-errors", "source_commits": [], "add_only": True},
    "engines": [{"name": "sa", "path": "sa/", "serves_properties": sorted(props.P), "kind_free_text": "repository-specific static analyser (pure stdlib, Python ast): source index, call graph, statement CFG with exception edges, reaching definitions, control dependence, path-atom decision tables, obligation ledger, taint/origin dataflow, PEG extraction + structural differ, regex automata"}],
    "checks": checks,
    "notes": "All checks are static: they parse /repo's working tree on every run and never import or run textX. Findings are keyed by (rule, file, function, normalised construct). known_findings.json lists the open genuine defects (printed as KNOWN-FINDING, exit 0) and the repaired ones (fixed: lines, suppress nothing). Exit 2 + ANALYSIS-ERROR = the analyser could not decide (vanished anchor, unsupported construct); it is never reported as a VIOLATION.",
    "not_applicable": [{"property_id": k, "reason": v} for k, v in sorted(NOT_APPLICABLE.items())],
}
json.dump(m, open(os.path.join(HERE, "MANIFEST.json"), "w"), indent=1)
print("MANIFEST.json: %d checks, %d not applicable" % (len(checks), len(NOT_APPLICABLE)))
