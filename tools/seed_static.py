#!/venv/bin/python
"""run the static checks against every kept seeded change (in-process, scratch copies of textx/ under a temp dir)
usage: seed_static.py [--all-props] [seed ids...]     prints one line per seed: own property verdict (+ other properties that fire)"""
import json, os, shutil, subprocess, sys, tempfile, multiprocessing
VERIF = os.path.dirname(os.path.dirname(os.path.abspath(__file__))); sys.path.insert(0, VERIF)
_BASE = {}
def base_keys(p):
    """finding keys of the unpatched /repo per property (computed once per process tree: call prime() before forking)"""
    from sa import report
    if p not in _BASE: _BASE[p] = {report.fkey(f) for f in report.analyse(p, "/repo").findings}
    return _BASE[p]
def prime(props_):
    for p in props_: base_keys(p)
def one(args):
    sid, allp = args
    from sa import report, props
    d = tempfile.mkdtemp(prefix="sa_seed_")
    try:
        shutil.copytree("/repo/textx", d + "/textx", ignore=shutil.ignore_patterns("__pycache__"))
        r = subprocess.run(["patch", "-p1", "-s", "-d", d, "-i", os.path.join(VERIF, "seeded", sid, "patch.diff")], capture_output=True, text=True)
        if r.returncode: return (sid, "PATCH-FAIL", r.stdout[-200:], [])
        own = sid.split("-")[0]
        base = base_keys(own)
        res = report.analyse(own, d)
        new = [f for f in res.findings if report.fkey(f) not in base]
        verdict = "VIOLATION" if new else ("ANALYSIS-ERROR" if res.errors else "silent")
        detail = ("%s %s [%s]" % (new[0].rule, new[0].func, new[0].construct[:70])) if new else (str(res.errors[0])[:150] if res.errors else "")
        others = []
        if allp:
            for p in sorted(props.P):
                if p == own: continue
                b = base_keys(p)
                rr = report.analyse(p, d)
                if any(report.fkey(f) not in b for f in rr.findings): others.append(p)
                elif rr.errors: others.append(p + "(err)")
        return (sid, verdict, detail, others)
    finally: shutil.rmtree(d, ignore_errors=True)
if __name__ == "__main__":
    allp = "--all-props" in sys.argv
    ids = [a for a in sys.argv[1:] if not a.startswith("--")] or sorted(os.listdir(os.path.join(VERIF, "seeded")))
    ids = [i for i in ids if os.path.isdir(os.path.join(VERIF, "seeded", i)) and os.path.exists(os.path.join(VERIF, "seeded", i, "patch.diff"))]
    from sa import props as _P
    prime(sorted(_P.P) if allp else sorted({i.split("-")[0] for i in ids}))
    with multiprocessing.get_context("fork").Pool(min(16, len(ids))) as pool: rs = pool.map(one, [(i, allp) for i in ids], chunksize=1)
    hit = sum(1 for r in rs if r[1] in ("VIOLATION", "ANALYSIS-ERROR"))
    for sid, v, det, oth in rs: print("%-8s %-15s %s %s" % (sid, v, det, ("| also: " + ",".join(oth)) if oth else ""))
    print("detected by own property: %d / %d" % (hit, len(rs)))
