#!/venv/bin/python
"""copy confirmed seeded changes from /tmp/wt-out/<Cxx>/<k>/ to /verif/seeded/<Cxx>-<k>/ (after seed_eval confirmed them)
usage: seed_import.py C08 C07 ...   (runs seed_eval's confirmation; keeps only confirmed ones)"""
import json, os, shutil, sys
sys.path.insert(0, os.path.dirname(os.path.abspath(__file__)))
import seed_eval
SRC = "/tmp/wt-out"; TAG = ""
args = sys.argv[1:]
if "--src" in args: i = args.index("--src"); SRC = args[i + 1]; del args[i:i + 2]
if "--tag" in args: i = args.index("--tag"); TAG = args[i + 1] + "-"; del args[i:i + 2]
for p in args:
    for k in sorted(os.listdir("%s/%s" % (SRC, p))):
        d = "%s/%s/%s" % (SRC, p, k)
        if not os.path.exists(d + "/patch.diff"): continue
        dst = "/verif/seeded/%s-%s%s" % (p, TAG, k)
        if os.path.exists(dst): print(dst, "exists"); continue
        o = seed_eval.evaluate(d, props=[p])
        if not o.get("confirmed"): print("NOT CONFIRMED", d, {x: o.get(x) for x in ("demo_patched_rc", "demo_clean_rc", "suite", "error")}); continue
        os.makedirs(dst); 
        for f in ("patch.diff", "demo.py"): shutil.copy(d + "/" + f, dst + "/" + f)
        m = o["meta"]; m["confirmed_by"] = "tools/seed_eval.py: patch applied to a scratch worktree of /repo HEAD; demo.py exit 1 with the change and exit 0 on /repo; baseline suite %s stable passes with the change" % o["suite"]
        m["repo_head"] = os.popen("git -C /repo rev-parse --short HEAD").read().strip()
        st = "VIOLATION" if p in o["violations"] else ("ANALYSIS-ERROR" if p in o["analysis_errors"] else "silent")
        m["first_eval"] = {"own_property_check": st, "verif_commit": os.popen("git -C /verif rev-parse --short HEAD").read().strip()}
        json.dump(m, open(dst + "/meta.json", "w"), indent=1)
        print("kept", dst, "own-property check:", st)
